package interp

// Recording stubs for the operating system (DESIGN.md section 2.6): every os /
// syscall function reached from ufs calls back into harness-defined hooks
//
//	func vOSHook(fn, path, path2 string, flags int, perm uint32, off int64, n int) int
//	func vOSInfo(path string) (size int64, perm uint32, isDir bool, ino uint64)
//	func vOSReadDirN(path string) int
//
// which log the call and decide its outcome (0 = success, < 0 = error; for
// readat/writeat the non-negative result is the byte count).

import (
	"fmt"
	"go/types"

	"golang.org/x/tools/go/ssa"
)

func init() {
	for k, v := range map[string]externalFn{
		"os.Stat":              extOsStat,
		"os.Lstat":             extOsStat,
		"os.ReadDir":           extOsReadDir,
		"os.Remove":            osSimple("remove", 1),
		"os.Mkdir":             extOsMkdir,
		"os.Chmod":             extOsChmod,
		"os.Chown":             osSimple("chown", 1),
		"os.Truncate":          extOsTruncate,
		"syscall.Rename":       extSyscallRename,
		"os.Rename":            extSyscallRename,
		"os.OpenFile":          extOsOpenFile,
		"(*os.File).Close":     extFileClose,
		"(*os.File).ReadAt":    extFileReadAt,
		"(*os.File).WriteAt":   extFileWriteAt,
		"os/user.Lookup":       extUserLookup,
		"os/user.LookupGroup":  extUserLookup,
		"path/filepath.Clean":  nil,
	} {
		if v != nil {
			externals[k] = v
		}
	}
}

func (fr *frame) osHookFn(name string) *ssa.Function {
	for f := fr; f != nil; f = f.caller {
		if f.ext || f.fn.Blocks == nil {
			continue
		}
		if p := fnPkg(f.fn); p != nil && fr.i.eng.isRepoPkg(p.Pkg.Path()) {
			if h := p.Func(name); h != nil {
				return h
			}
		}
	}
	panic(unsupported{"OS call without harness hook " + name})
}

func (fr *frame) osHook(fn string, path, path2 value, flags int, perm value, off value, n int) int64 {
	h := fr.osHookFn("vOSHook")
	if path2 == nil {
		path2 = ""
	}
	if perm == nil {
		perm = uint32(0)
	}
	if off == nil {
		off = int64(0)
	}
	r := call(fr.i, fr, fr.pos, h, []value{fn, path, path2, flags, perm, off, n})
	return fr.concInt(r, "os hook result")
}

func (fr *frame) osErr(fn string) value {
	return fr.i.newErrorString("stub os error: " + fn)
}

func osSimple(fn string, npaths int) externalFn {
	return func(fr *frame, args []value) value {
		if fr.osHook(fn, args[0], nil, 0, nil, nil, 0) < 0 {
			return fr.osErr(fn)
		}
		return iface{}
	}
}

func extOsMkdir(fr *frame, args []value) value {
	if fr.osHook("mkdir", args[0], nil, 0, fr.conv(types.Typ[types.Uint32], types.Typ[types.Uint32], args[1]), nil, 0) < 0 {
		return fr.osErr("mkdir")
	}
	return iface{}
}

func extOsChmod(fr *frame, args []value) value {
	if fr.osHook("chmod", args[0], nil, 0, args[1], nil, 0) < 0 {
		return fr.osErr("chmod")
	}
	return iface{}
}

func extOsTruncate(fr *frame, args []value) value {
	if fr.osHook("truncate", args[0], nil, 0, nil, args[1], 0) < 0 {
		return fr.osErr("truncate")
	}
	return iface{}
}

func extSyscallRename(fr *frame, args []value) value {
	if fr.osHook("rename", args[0], args[1], 0, nil, nil, 0) < 0 {
		return fr.osErr("rename")
	}
	return iface{}
}

func extUserLookup(fr *frame, args []value) value {
	t := fr.fn.Signature.Results().At(0).Type()
	return tuple{zero(t), fr.osErr("user lookup")}
}

// newFileStat builds an *os.fileStat for path from the harness' vOSInfo hook.
func (fr *frame) newFileStat(path value) value {
	osPkg := fr.i.prog.ImportedPackage("os")
	fsT := osPkg.Type("fileStat").Object().Type()
	st := fsT.Underlying().(*types.Struct)
	cell := zero(fsT)
	s := cell.(structure)
	h := fr.osHookFn("vOSInfo")
	r := call(fr.i, fr, fr.pos, h, []value{path}).(tuple)
	size, perm, isDir, ino := r[0], r[1], r[2], r[3]
	base := fr.i.eng.byPkg["path/filepath"].Func("Base")
	name := call(fr.i, fr, fr.pos, base, []value{path})
	for i := 0; i < st.NumFields(); i++ {
		switch st.Field(i).Name() {
		case "name":
			s[i] = name
		case "size":
			s[i] = size
		case "mode":
			// os.FileMode: permission bits, ModeDir = 1<<31
			m := fr.binop(tokenAND, nil, fr.conv(types.Typ[types.Uint32], types.Typ[types.Uint32], perm), uint32(0777))
			if fr.truth(isDir) {
				m = fr.binop(tokenOR, nil, m, uint32(1<<31))
			}
			s[i] = m
		case "modTime":
			// fixed instant: time.Unix(1700000000, 0)
			tm := s[i].(structure)
			tm[0] = uint64(0)
			tm[1] = int64(1_700_000_000 + 62135596800)
			s[i] = tm
		case "sys":
			sys := s[i].(structure)
			sst := st.Field(i).Type().Underlying().(*types.Struct)
			for j := 0; j < sst.NumFields(); j++ {
				if sst.Field(j).Name() == "Ino" {
					sys[j] = ino
				}
			}
		}
	}
	var c value = s
	return iface{t: types.NewPointer(fsT), v: &c}
}

func extOsStat(fr *frame, args []value) value {
	if fr.osHook("stat", args[0], nil, 0, nil, nil, 0) < 0 {
		return tuple{iface{}, fr.osErr("stat")}
	}
	return tuple{fr.newFileStat(args[0]), iface{}}
}

func extOsReadDir(fr *frame, args []value) value {
	if fr.osHook("readdir", args[0], nil, 0, nil, nil, 0) < 0 {
		return tuple{[]value(nil), fr.osErr("readdir")}
	}
	h := fr.osHookFn("vOSReadDirN")
	n := int(fr.concInt(call(fr.i, fr, fr.pos, h, []value{args[0]}), "readdir count"))
	osPkg := fr.i.prog.ImportedPackage("os")
	udT := osPkg.Type("unixDirent").Object().Type()
	st := udT.Underlying().(*types.Struct)
	var out []value
	for k := 0; k < n; k++ {
		child := symStrBinop(tokenADD, args[0], fmt.Sprintf("/e%d", k))
		cell := zero(udT).(structure)
		for i := 0; i < st.NumFields(); i++ {
			switch st.Field(i).Name() {
			case "name":
				cell[i] = fmt.Sprintf("e%d", k)
			case "info":
				cell[i] = fr.newFileStat(child)
			}
		}
		var c value = cell
		out = append(out, iface{t: types.NewPointer(udT), v: &c})
	}
	return tuple{out, iface{}}
}

// open files: the *os.File cell is only an identity; path kept in a side table
func extOsOpenFile(fr *frame, args []value) value {
	var perm value = fr.conv(types.Typ[types.Uint32], types.Typ[types.Uint32], args[2])
	if fr.osHook("openfile", args[0], nil, int(fr.concInt(args[1], "open flags")), perm, nil, 0) < 0 {
		return tuple{(*value)(nil), fr.osErr("openfile")}
	}
	t := fr.fn.Signature.Results().At(0).Type()
	cell := zero(mustDeref(t))
	p := &cell
	ps := fr.i.ps
	if ps.osFiles == nil {
		ps.osFiles = map[*value]value{}
	}
	ps.osFiles[p] = args[0]
	return tuple{p, iface{}}
}

func (fr *frame) filePath(f value) value {
	p, _ := f.(*value)
	if p == nil {
		runtimePanic("invalid memory address or nil pointer dereference (nil *os.File)")
	}
	if path, ok := fr.i.ps.osFiles[p]; ok {
		return path
	}
	return "<unknown file>"
}

func extFileClose(fr *frame, args []value) value {
	if fr.osHook("close", fr.filePath(args[0]), nil, 0, nil, nil, 0) < 0 {
		return fr.osErr("close")
	}
	return iface{}
}

func extFileReadAt(fr *frame, args []value) value {
	b := args[1].([]value)
	r := fr.osHook("readat", fr.filePath(args[0]), nil, 0, nil, args[2], len(b))
	if r < 0 {
		return tuple{0, fr.osErr("readat")}
	}
	n := int(r)
	if n > len(b) {
		n = len(b)
	}
	if n < len(b) {
		// short read: io.EOF, as os.File.ReadAt reports
		return tuple{n, fr.i.globalValue("io", "EOF")}
	}
	return tuple{n, iface{}}
}

func extFileWriteAt(fr *frame, args []value) value {
	b := args[1].([]value)
	r := fr.osHook("writeat", fr.filePath(args[0]), nil, 0, nil, args[2], len(b))
	if r < 0 {
		return tuple{0, fr.osErr("writeat")}
	}
	n := int(r)
	if n > len(b) {
		n = len(b)
	}
	return tuple{n, iface{}}
}

func (i *interpreter) globalValue(pkg, name string) value {
	p := i.prog.ImportedPackage(pkg)
	g := p.Var(name)
	if cell, ok := i.globals[g]; ok {
		return *cell
	}
	return iface{}
}
