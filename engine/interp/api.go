package interp

// The harness API (nd*/v* functions declared in zz_verif_api.go overlay files)
// as intercepted by the engine.

import (
	"encoding/hex"
	"fmt"
	"go/types"
	"path/filepath"
	"strings"

	"golang.org/x/tools/go/ssa"

	"symgo/smt"
)

type apiFn func(fr *frame, args []value) value

var apiTable map[string]apiFn

func init() {
	apiTable = map[string]apiFn{
		"ndU8":           func(fr *frame, a []value) value { return ndInt(fr, a, types.Uint8) },
		"ndU16":          func(fr *frame, a []value) value { return ndInt(fr, a, types.Uint16) },
		"ndU32":          func(fr *frame, a []value) value { return ndInt(fr, a, types.Uint32) },
		"ndU64":          func(fr *frame, a []value) value { return ndInt(fr, a, types.Uint64) },
		"ndI64":          func(fr *frame, a []value) value { return ndInt(fr, a, types.Int64) },
		"ndInt":          func(fr *frame, a []value) value { return ndInt(fr, a, types.Int) },
		"ndBool":         apiNdBool,
		"ndChoice":       apiNdChoice,
		"ndBytes":        apiNdBytes,
		"ndString":       apiNdString,
		"vAssume":        apiAssume,
		"vAssert":        apiAssert,
		"vFail":          apiFail,
		"vAssertEqBytes": apiAssertEqBytes,
		"vAssertEqStr":   apiAssertEqStr,
		"vEqBytes":       apiEqBytes,
		"vEqStr":         apiEqStr,
		"vAnd":           apiAnd,
		"vOr":            apiOr,
		"vNot":           apiNot,
		"vImplies":       apiImplies,
		"vReach":         apiReach,
		"vObserve":       apiObserve,
		"vYield":         apiYield,
		"vAllocBegin":    apiAllocBegin,
		"vAllocEnd":      apiAllocEnd,
		"vConcrete":      apiConcrete,
		"vSymbolic":      func(fr *frame, a []value) value { return true },
		"vStuck":         apiStuck,
		"vGoroutines":    apiGoroutines,
		"vDrain":         apiDrain,
	}
}

// apiFor returns the interceptor for fn if it is a harness API function.
func (e *Engine) apiFor(fn *ssa.Function) apiFn {
	f := apiTable[fn.Name()]
	if f == nil || fn.Pkg == nil {
		return nil
	}
	if !e.isHarnessFn(fn) {
		return nil
	}
	return f
}

func (e *Engine) isHarnessFn(fn *ssa.Function) bool {
	for fn.Parent() != nil {
		fn = fn.Parent()
	}
	if v, ok := e.harnessFnM.Load(fn); ok {
		return v.(bool)
	}
	r := false
	if fn.Pos().IsValid() {
		name := filepath.Base(e.prog.Fset.Position(fn.Pos()).Filename)
		r = strings.HasPrefix(name, "zz_verif")
	}
	e.harnessFnM.Store(fn, r)
	return r
}

func argStr(v value) string {
	switch v := v.(type) {
	case string:
		return v
	case sstr:
		return "symbolic-label"
	}
	return fmt.Sprint(v)
}

func ndInt(fr *frame, a []value, k types.BasicKind) value {
	ps := fr.i.ps
	t := ps.newVar(argStr(a[0]), kindWidth(k))
	return symv{t, k}
}

func apiNdBool(fr *frame, a []value) value {
	ps := fr.i.ps
	t := ps.newVar(argStr(a[0]), 1)
	return mkBool(ps.ctx.Eq(t, ps.ctx.Const(1, 1)))
}

func apiNdChoice(fr *frame, a []value) value {
	ps := fr.i.ps
	n := int(asInt64(a[1]))
	name := argStr(a[0])
	k := ps.varCount[name]
	ps.varCount[name] = k + 1
	v := 0
	if n > 1 {
		v = ps.choose(n)
	}
	ps.ndChoices = append(ps.ndChoices, ndChoiceRec{fmt.Sprintf("%s!%d", name, k), v})
	return v
}

func apiNdBytes(fr *frame, a []value) value {
	ps := fr.i.ps
	n := int(fr.concInt(a[1], "ndBytes length"))
	out := make([]value, n)
	name := argStr(a[0])
	for i := range out {
		out[i] = symv{ps.newVar(fmt.Sprintf("%s[%d]", name, i), 8), types.Uint8}
	}
	return out
}

func apiNdString(fr *frame, a []value) value {
	bs := apiNdBytes(fr, a).([]value)
	return mkStr(bs)
}

func apiAssume(fr *frame, a []value) value {
	ps := fr.i.ps
	ps.assume(boolTerm(ps.ctx, a[0]))
	return nil
}

func apiAssert(fr *frame, a []value) value {
	ps := fr.i.ps
	ps.nAsserts++
	ps.assert(boolTerm(ps.ctx, a[0]), "assert", argStr(a[1]), ps.siteOf(fr.caller))
	return nil
}

func apiFail(fr *frame, a []value) value {
	ps := fr.i.ps
	ps.nAsserts++
	ps.assert(ps.ctx.False, "assert", argStr(a[0]), ps.siteOf(fr.caller))
	return nil
}

func seqBytes(v value) []value {
	switch v := v.(type) {
	case []value:
		return v
	case string, sstr:
		return strBytes(v)
	}
	panic(fmt.Sprintf("seqBytes: %T", v))
}

func eqSeqTerm(ps *pathState, x, y value) *smt.Term {
	return bytesEqTerm(ps.ctx, seqBytes(x), seqBytes(y))
}

func apiAssertEqBytes(fr *frame, a []value) value {
	ps := fr.i.ps
	ps.nAsserts++
	ps.assert(eqSeqTerm(ps, a[0], a[1]), "assert", argStr(a[2]), ps.siteOf(fr.caller))
	return nil
}

func apiAssertEqStr(fr *frame, a []value) value { return apiAssertEqBytes(fr, a) }

func apiEqBytes(fr *frame, a []value) value {
	return mkBool(eqSeqTerm(fr.i.ps, a[0], a[1]))
}

func apiEqStr(fr *frame, a []value) value { return apiEqBytes(fr, a) }

func apiAnd(fr *frame, a []value) value {
	c := fr.i.ps.ctx
	return mkBool(c.BAnd(boolTerm(c, a[0]), boolTerm(c, a[1])))
}

func apiOr(fr *frame, a []value) value {
	c := fr.i.ps.ctx
	return mkBool(c.BOr(boolTerm(c, a[0]), boolTerm(c, a[1])))
}

func apiNot(fr *frame, a []value) value {
	c := fr.i.ps.ctx
	return mkBool(c.BNot(boolTerm(c, a[0])))
}

func apiImplies(fr *frame, a []value) value {
	c := fr.i.ps.ctx
	return mkBool(c.BOr(c.BNot(boolTerm(c, a[0])), boolTerm(c, a[1])))
}

func apiReach(fr *frame, a []value) value {
	fr.i.ps.reach[argStr(a[0])] = true
	return nil
}

func apiObserve(fr *frame, a []value) value {
	ps := fr.i.ps
	v := a[1]
	if it, ok := v.(iface); ok {
		v = fr.observable(it)
	}
	ps.obs = append(ps.obs, Observation{argStr(a[0]), v})
	return nil
}

// observable reduces an interface value to something formatObs can print:
// errors become their text.
func (fr *frame) observable(it iface) value {
	if it.t == nil {
		return obsNil{}
	}
	if m := fr.i.errorMethodOf(it.t); m != nil {
		s := call(fr.i, fr, 0, m, []value{it.v})
		return obsErr{s}
	}
	return it.v
}

type obsNil struct{}
type obsErr struct{ s value }

func (i *interpreter) errorMethodOf(t types.Type) *ssa.Function {
	ms := i.prog.MethodSets.MethodSet(t)
	sel := ms.Lookup(nil, "Error")
	if sel == nil {
		return nil
	}
	sig, ok := sel.Type().(*types.Signature)
	if !ok || sig.Params().Len() != 0 || sig.Results().Len() != 1 {
		return nil
	}
	return i.prog.MethodValue(sel)
}

// formatObs renders an observed value under a model, in the same format the
// native harness API uses.
func formatObs(m smt.Model, v value) string {
	switch v := v.(type) {
	case obsNil:
		return "nil"
	case obsErr:
		return "e:" + hexOfSeq(m, strBytes(v.s))
	case bool:
		return fmt.Sprint(v)
	case symv:
		x := m.Eval(v.t)
		if v.k == types.Bool {
			return fmt.Sprint(x != 0)
		}
		return fmtInt(v.k, x)
	case string, sstr:
		return "s:" + hexOfSeq(m, strBytes(v))
	case []value:
		return "b:" + hexOfSeq(m, v)
	case structure:
		s := "{"
		for i, e := range v {
			if i > 0 {
				s += " "
			}
			s += formatObs(m, e)
		}
		return s + "}"
	case iface:
		if v.t == nil {
			return "nil"
		}
		return formatObs(m, v.v)
	}
	if k, x, ok := intKind(v); ok {
		return fmtInt(k, x)
	}
	return fmt.Sprintf("<%T>", v)
}

func fmtInt(k types.BasicKind, x uint64) string {
	if kindSigned(k) {
		w := kindWidth(k)
		sh := 64 - uint(w)
		return fmt.Sprint(int64(x<<sh) >> sh)
	}
	return fmt.Sprint(x)
}

func hexOfSeq(m smt.Model, bs []value) string {
	raw := make([]byte, len(bs))
	for i, b := range bs {
		switch b := b.(type) {
		case uint8:
			raw[i] = b
		case symv:
			raw[i] = byte(m.Eval(b.t))
		default:
			// non-byte element: render generically
			return fmt.Sprintf("<%T seq>", b)
		}
	}
	return hex.EncodeToString(raw)
}

func apiYield(fr *frame, a []value) value {
	fr.i.ps.sched.park(&pendingOp{kind: opResume, wild: true})
	return nil
}

func apiAllocBegin(fr *frame, a []value) value {
	ps := fr.i.ps
	c := ps.ctx
	ps.allocOpen = true
	ps.allocTotal = c.Const(64, 0)
	ps.allocLabel = "allocation exceeds budget"
	if s, ok := a[0].(symv); ok {
		ps.allocLimit = to64(c, s)
	} else {
		ps.allocLimit = c.Const(64, uint64(asInt64(a[0])))
	}
	return nil
}

func apiAllocEnd(fr *frame, a []value) value {
	ps := fr.i.ps
	ps.allocOpen = false
	return mkSym(types.Int, ps.allocTotal)
}

func apiConcrete(fr *frame, a []value) value {
	v := fr.concInt(a[0], "vConcrete")
	return int(v)
}

// vStuck() reports whether every other goroutine is blocked or done, i.e. the
// system is quiescent apart from the caller.
func apiStuck(fr *frame, a []value) value {
	s := fr.i.ps.sched
	for _, g := range s.gs {
		if g == s.cur || g.done || g.op == nil {
			continue
		}
		if len(s.enabledFor(g, nil)) > 0 {
			return false
		}
	}
	return true
}

func apiGoroutines(fr *frame, a []value) value {
	s := fr.i.ps.sched
	n := 0
	for _, g := range s.gs {
		if !g.done {
			n++
		}
	}
	return n
}

// vDrain() lets every other goroutine run until all are blocked or done.
func apiDrain(fr *frame, a []value) value {
	s := fr.i.ps.sched
	for {
		busy := false
		for _, g := range s.gs {
			if g == s.cur || g.done || g.op == nil {
				continue
			}
			if len(s.enabledFor(g, nil)) > 0 {
				busy = true
			}
		}
		if !busy {
			// quiescence is a synchronisation point for the race monitor
			for _, g := range s.gs {
				if g != s.cur {
					s.cur.clk = s.cur.clk.join(g.clk)
				}
			}
			s.cur.clk = s.cur.clk.tick(s.cur.id)
			return nil
		}
		s.parkDrain()
	}
}
