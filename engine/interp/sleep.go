package interp

// Sleep sets (partial-order reduction) for the bounded scheduler.  Two
// transitions are independent when they involve disjoint goroutines and touch
// disjoint synchronisation objects; under data-race freedom (checked by the
// race monitor on every explored schedule) such transitions commute.

import "symgo/smt"

// TInfo identifies a scheduler transition in a way that is stable across
// re-executions sharing the same decision prefix.
type TInfo struct {
	G, Seq, Case    int   // owner goroutine, its park sequence number, select case
	PG, PSeq, PCase int   // rendezvous partner (PG < 0: none)
	Objs            []int // ids of the sync objects the transition depends on
	Wild            bool  // depends on everything
}

func (a *TInfo) same(b *TInfo) bool {
	return a.G == b.G && a.Seq == b.Seq && a.Case == b.Case && a.PG == b.PG && a.PSeq == b.PSeq && a.PCase == b.PCase
}

func independent(a, b *TInfo) bool {
	if a.Wild || b.Wild {
		return false
	}
	if a.G == b.G || a.G == b.PG || (a.PG >= 0 && (a.PG == b.G || a.PG == b.PG)) {
		return false
	}
	for _, x := range a.Objs {
		for _, y := range b.Objs {
			if x == y {
				return false
			}
		}
	}
	return true
}

func filterIndep(set []TInfo, t *TInfo) []TInfo {
	var out []TInfo
	for i := range set {
		if independent(&set[i], t) {
			out = append(out, set[i])
		}
	}
	return out
}

func (ps *pathState) asleep(t *TInfo) bool {
	for i := range ps.sleep {
		if ps.sleep[i].same(t) {
			return true
		}
	}
	return false
}

// objID gives a sync object (channel, lock cell, map) an id that depends only on
// the order of first use, hence is stable along a shared decision prefix.
func (ps *pathState) objID(p interface{}) int {
	if ps.objIDs == nil {
		ps.objIDs = map[interface{}]int{}
	}
	if id, ok := ps.objIDs[p]; ok {
		return id
	}
	id := len(ps.objIDs) + 1
	ps.objIDs[p] = id
	return id
}

// chooseSched picks the next transition among infos (in exploration order),
// pruning and forking according to the sleep set.
func (ps *pathState) chooseSched(infos []TInfo) int {
	n := len(infos)
	if n == 0 {
		panic("chooseSched: no alternatives")
	}
	if n == 1 {
		if ps.replaying() || !ps.eng.Cfg.SleepSets || ps.eng.Cfg.DelayBound >= 0 {
			return 0
		}
		if ps.asleep(&infos[0]) {
			ps.abort("pruned", "sleep-set blocked")
		}
		ps.sleep = filterIndep(ps.sleep, &infos[0])
		return 0
	}
	if d, ok := ps.next('c'); ok {
		if int(d.V) >= n {
			ps.eng.noteEngineError("schedule choice out of range on replay")
			ps.inconclusive("engine nondeterminism")
		}
		ps.record(d)
		ps.delays += int(d.V)
		return int(d.V)
	}
	ps.checkBudget()
	if db := ps.eng.Cfg.DelayBound; db >= 0 {
		// delay-bounded exploration (no sleep sets): alternative i costs i delays
		for i := n - 1; i >= 1; i-- {
			if ps.delays+i <= db {
				ps.pushSiblingSleep(Decision{'c', int64(i)}, ps.modelOrNil(), nil)
			}
		}
		ps.record(Decision{'c', 0})
		return 0
	}
	if !ps.eng.Cfg.SleepSets {
		for i := n - 1; i >= 1; i-- {
			ps.pushSiblingSleep(Decision{'c', int64(i)}, ps.modelOrNil(), nil)
		}
		ps.record(Decision{'c', 0})
		return 0
	}
	var awake []int
	for i := range infos {
		if !ps.asleep(&infos[i]) {
			awake = append(awake, i)
		}
	}
	if len(awake) == 0 {
		ps.abort("pruned", "sleep-set blocked")
	}
	first := awake[0]
	acc := append([]TInfo(nil), ps.sleep...)
	acc = append(acc, infos[first])
	for _, i := range awake[1:] {
		si := filterIndep(acc, &infos[i])
		ps.pushSiblingSleep(Decision{'c', int64(i)}, ps.modelOrNil(), si)
		acc = append(acc, infos[i])
	}
	ps.record(Decision{'c', int64(first)})
	ps.sleep = filterIndep(ps.sleep, &infos[first])
	return first
}

func (ps *pathState) modelOrNil() smt.Model {
	if ps.modelOK {
		return ps.model
	}
	return nil
}

func (ps *pathState) pushSiblingSleep(d Decision, m smt.Model, sleep []TInfo) {
	p := make([]Decision, len(ps.trace)+1)
	copy(p, ps.trace)
	p[len(ps.trace)] = d
	ps.siblings = append(ps.siblings, workItem{prefix: p, model: m, sleep: sleep})
	ps.forks++
}
