package interp

// UTF-8 decoding of byte sequences with symbolic bytes, following
// unicode/utf8.DecodeRune case by case; each case is a solver-decided branch.

import (
	"go/types"
	"unicode/utf8"

	"symgo/smt"
)

// decodeRuneSym decodes the first rune of bs; returns (rune value, width).
func (fr *frame) decodeRuneSym(bs []value) (value, int) {
	if len(bs) == 0 {
		return int32(utf8.RuneError), 0
	}
	// concrete fast path
	allc := true
	for i := 0; i < len(bs) && i < 4; i++ {
		if isSym(bs[i]) {
			allc = false
		}
	}
	if allc {
		raw := make([]byte, 0, 4)
		for i := 0; i < len(bs) && i < 4; i++ {
			raw = append(raw, bs[i].(uint8))
		}
		r, n := utf8.DecodeRune(raw)
		return int32(r), n
	}
	ps := fr.i.ps
	c := ps.ctx
	b := func(i int) *smt.Term { t, _ := termOf(c, bs[i]); return t }
	k := func(v uint64) *smt.Term { return c.Const(8, v) }
	in := func(t *smt.Term, lo, hi uint64) *smt.Term { return c.BAnd(c.ULe(k(lo), t), c.ULe(t, k(hi))) }
	z32 := func(t *smt.Term) *smt.Term { return c.ZExt(t, 32) }
	sh := func(t *smt.Term, n uint64) *smt.Term { return c.Shl(t, c.Const(32, n)) }
	low := func(t *smt.Term, m uint64) *smt.Term { return z32(c.And(t, k(m))) }
	b0 := b(0)
	if ps.branch(c.ULt(b0, k(0x80))) {
		return mkSym(types.Int32, z32(b0)), 1
	}
	bad := func() (value, int) { return int32(utf8.RuneError), 1 }
	cont := func(i int) *smt.Term { return in(b(i), 0x80, 0xBF) }
	// two bytes
	if ps.branch(in(b0, 0xC2, 0xDF)) {
		if len(bs) < 2 || !ps.branch(cont(1)) {
			return bad()
		}
		r := c.Or(sh(low(b0, 0x1F), 6), low(b(1), 0x3F))
		return mkSym(types.Int32, r), 2
	}
	// three bytes
	if ps.branch(in(b0, 0xE0, 0xEF)) {
		if len(bs) < 3 {
			return bad()
		}
		lo, hi := uint64(0x80), uint64(0xBF)
		var ok1 *smt.Term
		// E0: A0..BF, ED: 80..9F
		ok1 = c.Ite(c.Eq(b0, k(0xE0)), in(b(1), 0xA0, 0xBF), c.Ite(c.Eq(b0, k(0xED)), in(b(1), 0x80, 0x9F), in(b(1), lo, hi)))
		if !ps.branch(ok1) || !ps.branch(cont(2)) {
			return bad()
		}
		r := c.Or(c.Or(sh(low(b0, 0x0F), 12), sh(low(b(1), 0x3F), 6)), low(b(2), 0x3F))
		return mkSym(types.Int32, r), 3
	}
	// four bytes
	if ps.branch(in(b0, 0xF0, 0xF4)) {
		if len(bs) < 4 {
			return bad()
		}
		ok1 := c.Ite(c.Eq(b0, k(0xF0)), in(b(1), 0x90, 0xBF), c.Ite(c.Eq(b0, k(0xF4)), in(b(1), 0x80, 0x8F), in(b(1), 0x80, 0xBF)))
		if !ps.branch(ok1) || !ps.branch(cont(2)) || !ps.branch(cont(3)) {
			return bad()
		}
		r := c.Or(c.Or(c.Or(sh(low(b0, 0x07), 18), sh(low(b(1), 0x3F), 12)), sh(low(b(2), 0x3F), 6)), low(b(3), 0x3F))
		return mkSym(types.Int32, r), 4
	}
	return bad()
}

func extDecodeRune(fr *frame, args []value) value {
	r, n := fr.decodeRuneSym(seqBytes(args[0]))
	return tuple{r, n}
}

func extValidString(fr *frame, args []value) value {
	bs := seqBytes(args[0])
	for len(bs) > 0 {
		r, n := fr.decodeRuneSym(bs)
		if n == 1 {
			if rv, ok := r.(int32); ok && rv == utf8.RuneError {
				// width 1 and RuneError: invalid unless the byte really encodes U+FFFD (impossible in 1 byte)
				return false
			}
		}
		bs = bs[n:]
	}
	return true
}

func init() {
	externals["unicode/utf8.DecodeRuneInString"] = extDecodeRune
	externals["unicode/utf8.DecodeRune"] = extDecodeRune
	externals["unicode/utf8.ValidString"] = extValidString
	externals["unicode/utf8.Valid"] = extValidString
}
