package interp

// Deterministic scheduler for interpreted goroutines.  Exactly one interpreted
// goroutine runs at a time (baton passing between host goroutines); a
// goroutine runs until its next visible operation, parks there, and the
// scheduler picks the next transition through the path's decision vector.

import (
	"fmt"
	"os"
	"go/types"
	"sort"
	"sync"
)

type opKind int

const (
	opResume opKind = iota
	opSend
	opRecv
	opSelect
	opLock
	opRLock
	opWGWait
	opOnce
	opIdle // enabled only when no other goroutine can move
	opWLock
)

type selCase struct {
	send bool
	ch   *channel
	val  value
}

type pendingOp struct {
	kind       opKind
	ch         *channel
	val        value
	cases      []selCase
	hasDefault bool
	lockCell   *value // mutex state cell (int32 0/1) or once state
	wgCell     *value
	rw         *rwState

	fr   *frame // where the goroutine is parked (site computed lazily for deadlock reports)
	obj  interface{} // sync object the segment after a plain yield point touches first
	wild bool        // yield point dependent with everything (vYield, Gosched)

	// results
	chosen   int
	recvVal  value
	recvOK   bool
	panicMsg string
}

type channel struct {
	id     int
	cap    int
	buf    []value
	closed bool
	elem   types.Type
	// happens-before bookkeeping (race monitor)
	clk vclock
}

type goroutine struct {
	seq  int // number of parks so far
	id   int
	name string
	wake chan struct{}
	op   *pendingOp
	done bool
	clk  vclock
	// Go-like ordering (Cfg.GoOrder): tick at which the goroutine last became
	// ready to run, and whether it has been ready since it last parked
	readyAt int
	ready   bool
}

type transition struct {
	g       *goroutine
	caseIdx int // select case index, -1 for default / non-select
	partner *goroutine
	pcase   int
	kind    string
}

type scheduler struct {
	ps          *pathState
	gs          []*goroutine
	cur         *goroutine
	main        *goroutine
	aborting    bool
	abortStat   abortPath
	wg          sync.WaitGroup
	preemptions int
	nextChan    int
	switches    int
	tick        int
	runnext     *goroutine
}

func newScheduler(ps *pathState) *scheduler {
	s := &scheduler{ps: ps}
	g := &goroutine{id: 0, name: "main", wake: make(chan struct{}, 1)}
	g.clk = vclock{0: 1}
	s.gs = []*goroutine{g}
	s.cur = g
	s.main = g
	return s
}

func (s *scheduler) newChannel(elem types.Type, capacity int) *channel {
	s.nextChan++
	return &channel{id: s.nextChan, cap: capacity, elem: elem}
}

func (g *goroutine) waitWake(s *scheduler) {
	<-g.wake
	if s.aborting {
		panic(s.abortStat)
	}
}

// spawn registers a new goroutine; body runs on a fresh host goroutine once
// scheduled.
func (s *scheduler) spawn(name string, body func()) {
	g := &goroutine{id: len(s.gs), name: name, wake: make(chan struct{}, 1)}
	g.clk = s.cur.clk.fork(g.id, s.cur.id)
	s.cur.clk = s.cur.clk.tick(s.cur.id)
	g.op = &pendingOp{kind: opResume}
	s.tick++
	g.readyAt, g.ready = s.tick, true
	s.gs = append(s.gs, g)
	s.wg.Add(1)
	go func() {
		defer s.wg.Done()
		defer func() {
			r := recover()
			if r == nil {
				return
			}
			if ap, ok := r.(abortPath); ok {
				s.abortAll(ap, false)
				return
			}
			// a panic escaping a goroutine crashes the process
			msg := panicText(r)
			if _, isUnsup := r.(unsupported); isUnsup {
				s.abortAll(abortPath{"inconclusive", msg}, false)
				return
			}
			if !s.aborting {
				s.ps.violation("panic", "goroutine "+g.name+": "+msg, s.ps.lastSite(), nil)
				s.abortAll(abortPath{"violation", msg}, false)
			}
		}()
		<-g.wake
		if s.aborting {
			return
		}
		g.op = nil
		body()
		s.exit(g)
	}()
}

// abortAll ends the path: every parked goroutine is woken and unwinds.
func (s *scheduler) abortAll(ap abortPath, self bool) {
	if s.aborting {
		return
	}
	s.aborting = true
	s.abortStat = ap
	for _, g := range s.gs {
		if !g.done {
			select {
			case g.wake <- struct{}{}:
			default:
			}
		}
	}
}

func (s *scheduler) exit(g *goroutine) {
	g.done = true
	if g == s.main {
		return
	}
	if s.aborting {
		return
	}
	s.dispatch(g)
	if s.cur != g {
		s.cur.wake <- struct{}{}
	}
}

// park publishes op for goroutine g, lets the scheduler run one transition and
// returns when g is scheduled again with op completed.
func (s *scheduler) park(op *pendingOp) {
	g := s.cur
	g.seq++
	g.op = op
	g.ready = false
	s.dispatch(g)
	if s.cur != g {
		s.cur.wake <- struct{}{}
		g.waitWake(s)
	}
	g.op = nil
}

// tryInline executes op immediately if it is enabled without parking (used
// inside atomic sections).  Returns false if it would block.
func (s *scheduler) tryInline(op *pendingOp) bool {
	g := s.cur
	g.op = op
	ts := s.enabledFor(g, nil)
	if len(ts) == 0 {
		g.op = nil
		return false
	}
	i := s.ps.choose(len(ts))
	s.execute(ts[i])
	g.op = nil
	return true
}

func (s *scheduler) enabled() []transition {
	var ts []transition
	for _, g := range s.gs {
		if g.done || g.op == nil || g.op.kind == opIdle {
			continue
		}
		ts = s.enabledFor(g, ts)
	}
	if len(ts) == 0 {
		for _, g := range s.gs {
			if !g.done && g.op != nil && g.op.kind == opIdle {
				ts = append(ts, transition{g: g, caseIdx: -1, kind: "resume"})
			}
		}
	}
	return ts
}

// parkDrain parks the current goroutine until every other goroutine is
// blocked or done.
func (s *scheduler) parkDrain() {
	s.park(&pendingOp{kind: opIdle})
}

func (s *scheduler) sendEnabled(g *goroutine, caseIdx int, ch *channel, ts []transition) []transition {
	if ch == nil {
		return ts
	}
	if ch.closed {
		return append(ts, transition{g: g, caseIdx: caseIdx, kind: "send-closed"})
	}
	if len(ch.buf) < ch.cap {
		return append(ts, transition{g: g, caseIdx: caseIdx, kind: "send-buf"})
	}
	if ch.cap > 0 {
		return ts
	}
	for _, h := range s.gs {
		if h == g || h.done || h.op == nil {
			continue
		}
		switch h.op.kind {
		case opRecv:
			if h.op.ch == ch {
				ts = append(ts, transition{g: g, caseIdx: caseIdx, partner: h, pcase: -1, kind: "rendezvous"})
			}
		case opSelect:
			for j, c := range h.op.cases {
				if !c.send && c.ch == ch {
					ts = append(ts, transition{g: g, caseIdx: caseIdx, partner: h, pcase: j, kind: "rendezvous"})
				}
			}
		}
	}
	return ts
}

func (s *scheduler) recvEnabled(g *goroutine, caseIdx int, ch *channel, ts []transition) []transition {
	if ch == nil {
		return ts
	}
	if len(ch.buf) > 0 {
		return append(ts, transition{g: g, caseIdx: caseIdx, kind: "recv-buf"})
	}
	if ch.closed {
		return append(ts, transition{g: g, caseIdx: caseIdx, kind: "recv-closed"})
	}
	return ts
}

func (s *scheduler) enabledFor(g *goroutine, ts []transition) []transition {
	op := g.op
	switch op.kind {
	case opResume:
		ts = append(ts, transition{g: g, caseIdx: -1, kind: "resume"})
	case opSend:
		ts = s.sendEnabled(g, -1, op.ch, ts)
	case opRecv:
		ts = s.recvEnabled(g, -1, op.ch, ts)
	case opSelect:
		n0 := len(ts)
		for i, c := range op.cases {
			if c.send {
				ts = s.sendEnabled(g, i, c.ch, ts)
			} else {
				ts = s.recvEnabled(g, i, c.ch, ts)
			}
		}
		if len(ts) == n0 && op.hasDefault {
			// default is taken only if no partner could rendezvous with one
			// of our receive cases either
			if !s.someSenderFor(g) {
				ts = append(ts, transition{g: g, caseIdx: -1, kind: "default"})
			}
		}
	case opLock:
		if lockState(op.lockCell) == 0 {
			ts = append(ts, transition{g: g, caseIdx: -1, kind: "lock"})
		}
	case opRLock:
		if !op.rw.writer {
			ts = append(ts, transition{g: g, caseIdx: -1, kind: "rlock"})
		}
	case opWLock:
		if !op.rw.writer && op.rw.readers == 0 {
			ts = append(ts, transition{g: g, caseIdx: -1, kind: "wlock"})
		}
	case opWGWait:
		if asInt64(*op.wgCell) == 0 {
			ts = append(ts, transition{g: g, caseIdx: -1, kind: "wgwait"})
		}
	case opOnce:
		if lockState(op.lockCell) != 1 {
			ts = append(ts, transition{g: g, caseIdx: -1, kind: "once"})
		}
	}
	return ts
}

// someSenderFor reports whether a parked sender could rendezvous with one of
// g's select receive cases (then default must not be taken: in Go the select
// would find the sender ready).
func (s *scheduler) someSenderFor(g *goroutine) bool {
	for i, c := range g.op.cases {
		_ = i
		if c.send || c.ch == nil || c.ch.cap > 0 {
			continue
		}
		for _, h := range s.gs {
			if h == g || h.done || h.op == nil {
				continue
			}
			switch h.op.kind {
			case opSend:
				if h.op.ch == c.ch {
					return true
				}
			case opSelect:
				for _, hc := range h.op.cases {
					if hc.send && hc.ch == c.ch {
						return true
					}
				}
			}
		}
	}
	return false
}

func lockState(cell *value) int64 {
	return asInt64(*cell)
}

// dispatch chooses and executes the next transition; sets s.cur to the
// goroutine that continues.
func (s *scheduler) dispatch(from *goroutine) {
	ts := s.enabled()
	if len(ts) == 0 {
		if s.main.done {
			return
		}
		// nothing can move and main has not finished: deadlock
		desc := ""
		for _, g := range s.gs {
			if !g.done && g.op != nil {
				desc += fmt.Sprintf(" g%d(%s):%s at %s;", g.id, g.name, opName(g.op), s.ps.siteOf(g.op.fr))
			}
		}
		site := ""
		if s.main.op != nil {
			site = s.ps.siteOf(s.main.op.fr)
		}
		s.ps.violation("deadlock", "all goroutines blocked:"+desc, site, nil)
		ap := abortPath{"violation", "deadlock"}
		s.abortAll(ap, true)
		panic(ap)
	}
	// order: transitions involving `from` first (no preemption), then by goroutine id
	var mine, others []int
	for i, t := range ts {
		if from != nil && !from.done && (t.g == from || t.partner == from) {
			mine = append(mine, i)
		} else {
			others = append(others, i)
		}
	}
	if s.ps.eng.Cfg.GoOrder {
		s.goOrder(ts, others, from)
	}
	var alts []int
	alts = append(alts, mine...)
	bound := s.ps.eng.Cfg.PreemptionBound
	if len(mine) == 0 || bound < 0 || s.preemptions < bound {
		alts = append(alts, others...)
	}
	infos := make([]TInfo, len(alts))
	for i, a := range alts {
		infos[i] = s.info(ts[a])
	}
	k := alts[s.ps.chooseSched(infos)]
	t := ts[k]
	if s.ps.eng.Cfg.Verbose {
		d := ""
		for _, a := range alts {
			d += fmt.Sprintf(" g%d:%s", ts[a].g.id, ts[a].kind)
		}
		fmt.Fprintf(os.Stderr, "dispatch from g%d: alts[%s] -> g%d:%s\n", from.id, d, t.g.id, t.kind)
	}
	if len(mine) > 0 && !(t.g == from || t.partner == from) {
		s.preemptions++
	}
	if t.g != from {
		s.switches++
	}
	s.execute(t)
	s.cur = t.g
}

// goOrder sorts the transitions of goroutines other than the running one the
// way a single-P Go runtime would pick them: the goroutine most recently
// readied by a channel operation first (runnext), then first-ready first-run.
func (s *scheduler) goOrder(ts []transition, others []int, from *goroutine) {
	s.tick++
	for _, i := range others {
		g := ts[i].g
		if !g.ready {
			g.ready, g.readyAt = true, s.tick
		}
	}
	key := func(i int) (int, int, int) {
		g := ts[i].g
		rn := 1
		if g == s.runnext || (ts[i].partner != nil && ts[i].partner == s.runnext) {
			rn = 0
		}
		return rn, g.readyAt, g.id
	}
	sort.SliceStable(others, func(a, b int) bool {
		a0, a1, a2 := key(others[a])
		b0, b1, b2 := key(others[b])
		if a0 != b0 {
			return a0 < b0
		}
		if a1 != b1 {
			return a1 < b1
		}
		return a2 < b2
	})
}

func opName(op *pendingOp) string {
	switch op.kind {
	case opResume:
		return "runnable"
	case opSend:
		return fmt.Sprintf("send(ch%d)", chID(op.ch))
	case opRecv:
		return fmt.Sprintf("recv(ch%d)", chID(op.ch))
	case opSelect:
		s := "select("
		for i, c := range op.cases {
			if i > 0 {
				s += ","
			}
			if c.send {
				s += fmt.Sprintf("send ch%d", chID(c.ch))
			} else {
				s += fmt.Sprintf("recv ch%d", chID(c.ch))
			}
		}
		return s + ")"
	case opLock:
		return "lock"
	case opRLock:
		return "rlock"
	case opWGWait:
		return "wg.Wait"
	case opOnce:
		return "once.Do"
	case opIdle:
		return "idle"
	case opWLock:
		return "wlock"
	}
	return "?"
}

func chID(c *channel) int {
	if c == nil {
		return 0
	}
	return c.id
}

// execute performs transition t, completing the pending ops involved.
func (s *scheduler) execute(t transition) {
	g := t.g
	op := g.op
	var ch *channel
	var sendVal value
	if op.kind == opSelect && t.caseIdx >= 0 {
		ch = op.cases[t.caseIdx].ch
		sendVal = op.cases[t.caseIdx].val
	} else {
		ch = op.ch
		sendVal = op.val
	}
	if t.kind != "resume" {
		op.chosen = t.caseIdx
	}
	switch t.kind {
	case "resume":
	case "default":
		op.chosen = -1
	case "send-closed":
		op.panicMsg = "send on closed channel"
	case "send-buf":
		ch.buf = append(ch.buf, sendVal)
		ch.clk = ch.clk.join(g.clk)
		g.clk = g.clk.tick(g.id)
	case "recv-buf":
		op.recvVal = ch.buf[0]
		op.recvOK = true
		ch.buf = ch.buf[1:]
		g.clk = g.clk.join(ch.clk).tick(g.id)
	case "recv-closed":
		op.recvVal = zero(ch.elem)
		op.recvOK = false
		g.clk = g.clk.join(ch.clk).tick(g.id)
	case "rendezvous":
		h := t.partner
		hop := h.op
		hop.chosen = t.pcase
		hop.recvVal = sendVal
		hop.recvOK = true
		// both sides synchronise
		j := g.clk.join(h.clk)
		g.clk = j.tick(g.id)
		h.clk = j.tick(h.id)
		// partner becomes runnable, keeping its results
		res := *hop
		res.kind = opResume
		*hop = res
	case "lock":
		*op.lockCell = int32(1)
		s.acquireHB(g, op.lockCell)
	case "rlock":
		op.rw.readers++
		s.acquireHB(g, op.lockCell)
	case "wlock":
		op.rw.writer = true
		s.acquireHB(g, op.lockCell)
	case "wgwait":
		s.acquireHB(g, op.wgCell)
	case "once":
	}
}

// --- happens-before on lock-like cells --------------------------------------

func (s *scheduler) acquireHB(g *goroutine, cell *value) {
	if s.ps.lockClk == nil {
		return
	}
	if c, ok := s.ps.lockClk[cell]; ok {
		g.clk = g.clk.join(c)
	}
	g.clk = g.clk.tick(g.id)
}

func (s *scheduler) releaseHB(g *goroutine, cell *value) {
	if s.ps.lockClk == nil {
		s.ps.lockClk = map[*value]vclock{}
	}
	s.ps.lockClk[cell] = s.ps.lockClk[cell].join(g.clk)
	g.clk = g.clk.tick(g.id)
}

// --- vector clocks -------------------------------------------------------------

type vclock map[int]int

func (v vclock) join(o vclock) vclock {
	r := vclock{}
	for k, x := range v {
		r[k] = x
	}
	for k, x := range o {
		if x > r[k] {
			r[k] = x
		}
	}
	return r
}

func (v vclock) tick(id int) vclock {
	r := vclock{}
	for k, x := range v {
		r[k] = x
	}
	r[id]++
	return r
}

func (v vclock) fork(child, parent int) vclock {
	r := v.tick(child)
	return r
}

// leq reports v happens-before-or-equals o (pointwise <=).
func (v vclock) leq(o vclock) bool {
	for k, x := range v {
		if x > o[k] {
			return false
		}
	}
	return true
}

type rwState struct {
	writer  bool
	readers int
}

func panicText(r interface{}) string {
	switch r := r.(type) {
	case targetPanic:
		return "panic: " + toString(r.v)
	case error:
		return "runtime error: " + r.Error()
	case string:
		return r
	case unsupported:
		return r.String()
	case fmt.Stringer:
		return r.String()
	}
	return fmt.Sprintf("%v", r)
}


// info describes transition t for the sleep-set machinery.
func (s *scheduler) info(t transition) TInfo {
	ti := TInfo{G: t.g.id, Seq: t.g.seq, Case: t.caseIdx, PG: -1}
	if t.partner != nil {
		ti.PG, ti.PSeq, ti.PCase = t.partner.id, t.partner.seq, t.pcase
	}
	op := t.g.op
	add := func(p interface{}) {
		if p != nil {
			ti.Objs = append(ti.Objs, s.ps.objID(p))
		}
	}
	switch op.kind {
	case opResume:
		if op.wild {
			ti.Wild = true
		}
		if op.obj != nil {
			add(op.obj)
		}
	case opIdle:
		ti.Wild = true
	case opSend, opRecv:
		if op.ch != nil {
			add(op.ch)
		}
	case opSelect:
		if t.caseIdx >= 0 {
			if c := op.cases[t.caseIdx].ch; c != nil {
				add(c)
			}
		} else {
			for _, c := range op.cases {
				if c.ch != nil {
					add(c.ch)
				}
			}
		}
	case opLock, opOnce:
		add(op.lockCell)
	case opRLock, opWLock:
		add(op.lockCell)
	case opWGWait:
		add(op.wgCell)
	}
	return ti
}
