package interp

// Per-path symbolic state: decision vector, path condition, solver access,
// nondeterministic variables, observations, violations.

import (
	"fmt"
	"sort"
	"time"

	"symgo/smt"
)

// Decision is one entry of the decision vector.
type Decision struct {
	K byte  // 'b' branch, 'c' choice (nd/sched), 'v' concretised value
	V int64 // outcome
}

type NDVar struct {
	Name  string `json:"name"`
	Width int    `json:"width"`
}

type Observation struct {
	Label string
	Val   value
}

// Violation describes a failed verification condition on one path.
type Violation struct {
	Kind   string            `json:"kind"`  // "assert", "panic", "deadlock", "race", "alloc", ...
	Label  string            `json:"label"` // assertion label or panic text
	Site   string            `json:"site"`  // repo function / position
	Model  map[string]uint64 `json:"model"`
	Choice []int64           `json:"choices"` // nd choices + schedule in order
	Trace  []Decision        `json:"-"`
	Extra  string            `json:"extra,omitempty"`
}

type ndChoiceRec struct {
	Name string
	V    int
}

type abortPath struct {
	status string // "done", "assume", "violation", "inconclusive"
	reason string
}

type workItem struct {
	prefix []Decision
	model  smt.Model
	sleep  []TInfo // sleep set to install once the prefix has been replayed
}

type pathState struct {
	eng    *Engine
	ctx    *smt.Ctx
	solver *smt.Solver

	prefix []Decision
	pos    int
	trace  []Decision

	pc       []*smt.Term
	pcSet    map[*smt.Term]bool
	asserted int
	model    smt.Model
	modelOK  bool

	siblings []workItem

	vars     []NDVar
	varTerms []*smt.Term
	varCount map[string]int
	choices  []int64 // values of 'c' decisions in order (for native replay)

	obs     []Observation
	reach   map[string]bool
	viol    []*Violation
	status  string
	reason  string
	steps   int64
	forks   int
	started time.Time

	allocOpen  bool
	allocTotal *smt.Term // 64-bit
	allocLimit *smt.Term
	allocLabel string

	panicSite  string
	panicStack string
	lockClk    map[*value]vclock
	shadow     map[*value]*shadow
	raceSeen   map[string]bool

	expectPanic int
	osFiles     map[*value]value
	harnessRaces int
	sleep       []TInfo
	skippedSibling int
	delays      int // cost of the schedule choices so far (delay-bounded exploration)
	itemSleep   []TInfo
	objIDs      map[interface{}]int
	completed   bool
	rw          map[*value]*rwState
	once        map[*value]*value
	wg          map[*value]*value
	smaps       map[*value]*omap
	pools       map[*value][]poolItem
	opaqueFmt   int
	ndChoices   []ndChoiceRec
	nAsserts    int

	sched *scheduler

	fnSeen   map[string]int // functions executed (name -> instr count), filled at path end
	fnSeenFi map[*fnInfo]struct{}
	stubs  map[string]int
}

func newPathState(eng *Engine, solver *smt.Solver, item workItem) *pathState {
	ps := &pathState{
		eng:      eng,
		ctx:      smt.NewCtx(),
		solver:   solver,
		prefix:   item.prefix,
		pcSet:    map[*smt.Term]bool{},
		varCount: map[string]int{},
		reach:    map[string]bool{},
		fnSeen:   map[string]int{},
		fnSeenFi: map[*fnInfo]struct{}{},
		stubs:    map[string]int{},
		shadow:   map[*value]*shadow{},
		raceSeen: map[string]bool{},
		started:  time.Now(),
	}
	if item.model != nil {
		ps.model = item.model
		ps.modelOK = true
	}
	ps.itemSleep = item.sleep
	if len(item.prefix) == 0 {
		ps.sleep = item.sleep
	}
	solver.Reset()
	return ps
}

func (ps *pathState) abort(status, reason string) {
	panic(abortPath{status, reason})
}

func (ps *pathState) inconclusive(reason string) {
	ps.abort("inconclusive", reason)
}

func (ps *pathState) replaying() bool { return ps.pos < len(ps.prefix) }

func (ps *pathState) addPC(t *smt.Term) {
	if t.IsTrue() || ps.pcSet[t] {
		return
	}
	ps.pc = append(ps.pc, t)
	ps.pcSet[t] = true
	if ps.modelOK && !ps.model.EvalBool(t) {
		if ps.replaying() {
			// the model attached to the work item must satisfy the whole prefix
			ps.modelOK = false
		} else {
			ps.modelOK = false
		}
	}
}

func (ps *pathState) syncSolver() {
	for ; ps.asserted < len(ps.pc); ps.asserted++ {
		ps.solver.Assert(ps.pc[ps.asserted])
	}
}

// check asks the solver whether pc ∧ extra is satisfiable.
func (ps *pathState) check(extra *smt.Term) (smt.Result, smt.Model) {
	if extra.IsFalse() {
		return smt.Unsat, nil
	}
	if ps.modelOK && ps.model.EvalBool(extra) {
		return smt.Sat, ps.model
	}
	if len(ps.pc) == 0 && extra.IsTrue() {
		return smt.Sat, smt.Model{}
	}
	ps.syncSolver()
	r, m, err := ps.solver.CheckWith(extra, true)
	if err != nil {
		ps.eng.noteSolverError(err)
		return smt.Unknown, nil
	}
	if r == smt.Sat {
		// validate the model against our own evaluator (translator sanity)
		for _, t := range ps.pc {
			if !m.EvalBool(t) {
				ps.eng.noteSolverError(fmt.Errorf("model does not satisfy path condition term %s", t))
				return smt.Unknown, nil
			}
		}
		if !m.EvalBool(extra) {
			ps.eng.noteSolverError(fmt.Errorf("model does not satisfy query term"))
			return smt.Unknown, nil
		}
	}
	return r, m
}

func (ps *pathState) record(d Decision) {
	ps.trace = append(ps.trace, d)
	if d.K == 'c' {
		ps.choices = append(ps.choices, d.V)
	}
}

func (ps *pathState) next(kind byte) (Decision, bool) {
	if ps.pos < len(ps.prefix) {
		d := ps.prefix[ps.pos]
		if d.K != kind {
			ps.eng.noteEngineError(fmt.Sprintf("decision kind mismatch at %d: recorded %c, now %c", ps.pos, d.K, kind))
			ps.inconclusive("engine nondeterminism")
		}
		ps.pos++
		if ps.pos == len(ps.prefix) {
			ps.sleep = ps.itemSleep
		}
		return d, true
	}
	return Decision{}, false
}

func (ps *pathState) pushSibling(d Decision, m smt.Model) {
	p := make([]Decision, len(ps.trace)+1)
	copy(p, ps.trace)
	p[len(ps.trace)] = d
	ps.siblings = append(ps.siblings, workItem{prefix: p, model: m, sleep: append([]TInfo(nil), ps.sleep...)})
	ps.forks++
}

// branch decides a symbolic condition, forking if both sides are feasible.
func (ps *pathState) branch(cond *smt.Term) bool {
	if cond.IsTrue() {
		return true
	}
	if cond.IsFalse() {
		return false
	}
	c := ps.ctx
	if ps.pcSet[cond] {
		return true
	}
	ncond := c.BNot(cond)
	if ps.pcSet[ncond] {
		return false
	}
	if d, ok := ps.next('b'); ok {
		ps.record(d)
		if d.V != 0 {
			ps.addPC(cond)
			return true
		}
		ps.addPC(ncond)
		return false
	}
	ps.checkBudget()
	var side bool
	var have bool
	if ps.modelOK {
		side = ps.model.EvalBool(cond)
		have = true
	} else {
		r, m := ps.check(cond)
		switch r {
		case smt.Sat:
			side, have = true, true
			ps.model, ps.modelOK = m, true
		case smt.Unknown:
			ps.eng.noteUnknown("branch feasibility")
			side, have = true, true // keep; run is marked inconclusive
		}
	}
	if !have {
		// true side infeasible; the false side must be feasible (pc is sat)
		ps.record(Decision{'b', 0})
		ps.addPC(ncond)
		return false
	}
	other := ncond
	if !side {
		other = cond
	}
	r, m := ps.check(other)
	switch r {
	case smt.Sat:
		ov := int64(0)
		if !side {
			ov = 1
		}
		ps.pushSibling(Decision{'b', ov}, m)
	case smt.Unknown:
		ps.eng.noteUnknown("branch feasibility")
		ov := int64(0)
		if !side {
			ov = 1
		}
		ps.pushSibling(Decision{'b', ov}, nil)
	}
	if side {
		ps.record(Decision{'b', 1})
		ps.addPC(cond)
	} else {
		ps.record(Decision{'b', 0})
		ps.addPC(ncond)
	}
	return side
}

// choose picks one of n unconstrained alternatives (nd choice / schedule).
func (ps *pathState) choose(n int) int {
	if n <= 0 {
		panic("choose: no alternatives")
	}
	if n == 1 {
		return 0
	}
	if d, ok := ps.next('c'); ok {
		if int(d.V) >= n {
			ps.eng.noteEngineError(fmt.Sprintf("choice %d out of %d alternatives on replay", d.V, n))
			ps.inconclusive("engine nondeterminism")
		}
		ps.record(d)
		return int(d.V)
	}
	ps.checkBudget()
	for i := n - 1; i >= 1; i-- {
		var m smt.Model
		if ps.modelOK {
			m = ps.model
		}
		ps.pushSibling(Decision{'c', int64(i)}, m)
	}
	ps.record(Decision{'c', 0})
	return 0
}

// chooseOrdered is choose() with an explicit preference order: alternatives
// are explored in the order given by pref (indices into 0..n-1).
func (ps *pathState) chooseFrom(alts []int) int {
	i := ps.choose(len(alts))
	return alts[i]
}

// concretize forks over the feasible values of t (unsigned interpretation of
// its bits), up to cap distinct values.
func (ps *pathState) concretize(t *smt.Term, what string) uint64 {
	if t.IsConst() {
		return t.Val
	}
	c := ps.ctx
	if d, ok := ps.next('v'); ok {
		ps.record(d)
		ps.addPC(c.Eq(t, c.Const(t.W, uint64(d.V))))
		return uint64(d.V) & maskW(t.W)
	}
	ps.checkBudget()
	limit := ps.eng.Cfg.ConcretizeCap
	var vals []uint64
	var models []smt.Model
	excl := c.True
	for {
		r, m := ps.check(excl)
		if r == smt.Unknown {
			ps.eng.noteUnknown("concretize " + what)
			break
		}
		if r == smt.Unsat {
			break
		}
		v := m.Eval(t)
		vals = append(vals, v)
		models = append(models, m)
		excl = c.BAnd(excl, c.BNot(c.Eq(t, c.Const(t.W, v))))
		if len(vals) > limit {
			ps.inconclusive(fmt.Sprintf("concretize %s: more than %d feasible values", what, limit))
		}
	}
	if len(vals) == 0 {
		ps.inconclusive("concretize " + what + ": no feasible value")
	}
	// deterministic order
	idx := make([]int, len(vals))
	for i := range idx {
		idx[i] = i
	}
	sort.Slice(idx, func(a, b int) bool { return vals[idx[a]] < vals[idx[b]] })
	for _, i := range idx[1:] {
		ps.pushSibling(Decision{'v', int64(vals[i])}, models[i])
	}
	v := vals[idx[0]]
	ps.record(Decision{'v', int64(v)})
	ps.addPC(c.Eq(t, c.Const(t.W, v)))
	ps.model, ps.modelOK = models[idx[0]], true
	return v
}

func maskW(w uint8) uint64 {
	if w >= 64 || w == 0 {
		return ^uint64(0)
	}
	return (uint64(1) << w) - 1
}

func (ps *pathState) checkBudget() {
	if ps.eng.deadlineExceeded() {
		ps.inconclusive("global time budget exceeded")
	}
}

// assume constrains the path; an infeasible assumption ends it silently.
func (ps *pathState) assume(cond *smt.Term) {
	if cond.IsTrue() {
		return
	}
	if cond.IsFalse() {
		ps.abort("assume", "")
	}
	if ps.replaying() {
		// feasibility was established when the prefix was first explored? Not
		// necessarily (assume is not a decision), so check unless model says so.
	}
	r, m := ps.check(cond)
	switch r {
	case smt.Unsat:
		ps.abort("assume", "")
	case smt.Unknown:
		ps.eng.noteUnknown("assume feasibility")
	case smt.Sat:
		ps.model, ps.modelOK = m, true
	}
	ps.addPC(cond)
}

// assert checks cond on the current path; a feasible negation is a violation.
func (ps *pathState) assert(cond *smt.Term, kind, label, site string) {
	if cond.IsTrue() {
		return
	}
	if kind == "assert" && ps.eng.siblingLabel(label) {
		// a rig shared by several properties: assertions labelled for a sibling
		// property are decided by that property's own check; here they are
		// neither checked nor assumed, so that this check's own assertions further
		// down the path are still reached when a sibling assertion would fail
		ps.skippedSibling++
		return
	}
	c := ps.ctx
	r, m := ps.check(c.BNot(cond))
	switch r {
	case smt.Sat:
		ps.violation(kind, label, site, m)
		// continue on the side where the assertion holds, if any
		r2, m2 := ps.check(cond)
		if r2 == smt.Unsat {
			ps.abort("violation", label)
		}
		if r2 == smt.Sat {
			ps.model, ps.modelOK = m2, true
		}
		ps.addPC(cond)
	case smt.Unknown:
		ps.eng.noteUnknown("assertion " + label)
		ps.addPC(cond)
	case smt.Unsat:
		ps.eng.noteDischarged()
		ps.addPC(cond)
	}
}

func (ps *pathState) violation(kind, label, site string, m smt.Model) {
	if m == nil {
		if ps.modelOK {
			m = ps.model
		} else {
			r, mm := ps.check(ps.ctx.True)
			if r == smt.Sat {
				m = mm
			} else {
				m = smt.Model{}
			}
		}
	}
	v := &Violation{Kind: kind, Label: label, Site: site, Model: map[string]uint64{}}
	for i, nv := range ps.vars {
		v.Model[nv.Name] = m.Eval(ps.varTerms[i])
	}
	for _, c := range ps.ndChoices {
		v.Model[c.Name] = uint64(c.V)
	}
	v.Choice = append([]int64(nil), ps.choices...)
	v.Trace = append([]Decision(nil), ps.trace...)
	ps.viol = append(ps.viol, v)
}

// newVar creates a fresh nondeterministic bit-vector variable name!k.
func (ps *pathState) newVar(name string, w uint8) *smt.Term {
	k := ps.varCount[name]
	ps.varCount[name] = k + 1
	full := fmt.Sprintf("%s!%d", name, k)
	t := ps.ctx.Var(full, w)
	ps.vars = append(ps.vars, NDVar{full, int(w)})
	ps.varTerms = append(ps.varTerms, t)
	return t
}

// currentModel returns a model of the path condition.
func (ps *pathState) currentModel() (smt.Model, bool) {
	if ps.modelOK {
		return ps.model, true
	}
	r, m := ps.check(ps.ctx.True)
	if r == smt.Sat {
		ps.model, ps.modelOK = m, true
		return m, true
	}
	return nil, false
}
