package interp

// omap is the interpreter's map representation: an insertion-ordered
// association list.  Deterministic iteration order is required for
// re-execution along a decision vector; keys may contain symbolic leaves, in
// which case lookups fork on key equality.

import (
	"go/types"
)

type mentry struct {
	key  value
	val  value
	live bool
}

type omap struct {
	keyType types.Type
	ents    []*mentry
	n       int
	shadow  value // pseudo-cell for the race monitor: lookups read it, updates write it
}

func (m *omap) cell() *value { return &m.shadow }

func newOmap(kt types.Type) *omap { return &omap{keyType: kt} }

func (m *omap) len() int {
	if m == nil {
		return 0
	}
	return m.n
}

// find returns the entry whose key equals k, forking on symbolic equalities.
func (m *omap) find(ps *pathState, k value) *mentry {
	if m == nil {
		return nil
	}
	for _, e := range m.ents {
		if !e.live {
			continue
		}
		eq := equalsV(m.keyType, e.key, k)
		switch eq := eq.(type) {
		case bool:
			if eq {
				return e
			}
		case symv:
			if ps == nil {
				panic(unsupported{"symbolic map key without path state"})
			}
			if ps.branch(eq.t) {
				return e
			}
		}
	}
	return nil
}

func (m *omap) lookup(ps *pathState, k value) (value, bool) {
	if e := m.find(ps, k); e != nil {
		return e.val, true
	}
	return nil, false
}

func (m *omap) insert(ps *pathState, k, v value) {
	if e := m.find(ps, k); e != nil {
		e.val = v
		return
	}
	m.ents = append(m.ents, &mentry{key: k, val: v, live: true})
	m.n++
}

func (m *omap) delete(ps *pathState, k value) {
	if e := m.find(ps, k); e != nil {
		e.live = false
		m.n--
	}
}

// snapshot returns the live entries (for range iteration).
func (m *omap) snapshot() []*mentry {
	if m == nil {
		return nil
	}
	out := make([]*mentry, 0, m.n)
	for _, e := range m.ents {
		if e.live {
			out = append(out, e)
		}
	}
	return out
}

type omapIter struct {
	m    *omap
	ents []*mentry
	i    int
}

func (it *omapIter) next() tuple {
	for it.i < len(it.ents) {
		e := it.ents[it.i]
		it.i++
		if e.live { // entries deleted during iteration are skipped, as in Go
			return tuple{true, e.key, e.val}
		}
	}
	return tuple{false, nil, nil}
}
