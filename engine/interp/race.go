package interp

// Happens-before data-race monitor over interpreter heap cells.

import "fmt"

type epoch struct {
	gid     int
	t       int
	site    string
	harness bool // the accessing function itself is harness code
}

type shadow struct {
	w     epoch
	hasW  bool
	reads []epoch
}

func (ps *pathState) raceOn() bool {
	return ps.eng.Cfg.RaceDetect && len(ps.sched.gs) > 1
}

func leafCells(addr *value, out []*value) []*value {
	switch v := (*addr).(type) {
	case structure:
		for i := range v {
			out = leafCells(&v[i], out)
		}
		return out
	case array:
		for i := range v {
			out = leafCells(&v[i], out)
		}
		return out
	}
	return append(out, addr)
}

func (ps *pathState) onRead(fr *frame, addr *value) {
	if !ps.raceOn() {
		return
	}
	g := ps.sched.cur
	for _, cell := range leafCells(addr, nil) {
		sh := ps.shadow[cell]
		if sh == nil {
			sh = &shadow{}
			ps.shadow[cell] = sh
		}
		if sh.hasW && sh.w.gid != g.id && sh.w.t > g.clk[sh.w.gid] {
			ps.reportRace(fr, "read", sh.w, "write")
		}
		found := false
		for i := range sh.reads {
			if sh.reads[i].gid == g.id {
				sh.reads[i].t = g.clk[g.id]
				found = true
			}
		}
		if !found {
			sh.reads = append(sh.reads, epoch{g.id, g.clk[g.id], ps.siteOf(fr), ps.eng.isHarnessFn(fr.fn)})
		}
	}
}

func (ps *pathState) onWrite(fr *frame, addr *value) {
	if !ps.raceOn() {
		return
	}
	g := ps.sched.cur
	for _, cell := range leafCells(addr, nil) {
		ps.writeCell(fr, g, cell)
	}
}

func (ps *pathState) writeCell(fr *frame, g *goroutine, cell *value) {
	sh := ps.shadow[cell]
	if sh == nil {
		sh = &shadow{}
		ps.shadow[cell] = sh
	}
	if sh.hasW && sh.w.gid != g.id && sh.w.t > g.clk[sh.w.gid] {
		ps.reportRace(fr, "write", sh.w, "write")
	}
	for _, r := range sh.reads {
		if r.gid != g.id && r.t > g.clk[r.gid] {
			ps.reportRace(fr, "write", r, "read")
		}
	}
	sh.w = epoch{g.id, g.clk[g.id], ps.siteOf(fr), ps.eng.isHarnessFn(fr.fn)}
	sh.hasW = true
	sh.reads = sh.reads[:0]
}

func (ps *pathState) onWriteSlice(fr *frame, cells []value) {
	if !ps.raceOn() {
		return
	}
	g := ps.sched.cur
	for i := range cells {
		ps.writeCell(fr, g, &cells[i])
	}
}

func (ps *pathState) reportRace(fr *frame, kind string, prev epoch, prevKind string) {
	if !ps.eng.isRepoFn(fr.fn) {
		return
	}
	if prev.harness && ps.eng.isHarnessFn(fr.fn) {
		// both accesses are in harness code: not a property of the repository
		ps.harnessRaces++
		return
	}
	site := ps.siteOf(fr)
	label := fmt.Sprintf("data race: %s at %s vs earlier %s at %s", kind, site, prevKind, prev.site)
	key := "race|" + site + "|" + prev.site
	if ps.raceSeen[key] {
		return
	}
	ps.raceSeen[key] = true
	ps.violation("race", label, site, nil)
}
