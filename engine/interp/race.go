package interp

// Happens-before data-race monitor over interpreter heap cells.

import (
	"fmt"
	"go/token"

	"golang.org/x/tools/go/ssa"
)

type epoch struct {
	gid     int
	t       int
	fr      *frame // accessing frame (site string computed only when a race is reported)
	pos     token.Pos
	fn      *ssa.Function
	harness bool // the accessing function itself is harness code
}

// siteAt renders the innermost repository function of an access lazily.
func (ps *pathState) epochSite(e epoch) string {
	if e.fn == nil {
		return "?"
	}
	return fmt.Sprintf("%s (%s)", e.fn.String(), shortPos(ps.eng.prog.Fset, e.pos))
}

// accessSite finds the innermost non-harness repository frame (cheap: no formatting).
func (ps *pathState) accessSite(fr *frame) (*ssa.Function, token.Pos) {
	for f := fr; f != nil; f = f.caller {
		if !f.ext && f.fn.Blocks != nil && ps.eng.isRepoFn(f.fn) && !ps.eng.isHarnessFn(f.fn) {
			return f.fn, f.pos
		}
	}
	for f := fr; f != nil; f = f.caller {
		if !f.ext && f.fn.Blocks != nil && ps.eng.isRepoFn(f.fn) {
			return f.fn, f.pos
		}
	}
	return fr.fn, fr.pos
}

type shadow struct {
	w     epoch
	hasW  bool
	reads []epoch
}

func (ps *pathState) raceOn() bool {
	return ps.eng.Cfg.RaceDetect && len(ps.sched.gs) > 1
}

func leafCells(addr *value, out []*value) []*value {
	switch v := (*addr).(type) {
	case structure:
		for i := range v {
			out = leafCells(&v[i], out)
		}
		return out
	case array:
		for i := range v {
			out = leafCells(&v[i], out)
		}
		return out
	}
	return append(out, addr)
}

func (ps *pathState) onRead(fr *frame, addr *value) {
	if !ps.raceOn() {
		return
	}
	g := ps.sched.cur
	for _, cell := range leafCells(addr, nil) {
		sh := ps.shadow[cell]
		if sh == nil {
			sh = &shadow{}
			ps.shadow[cell] = sh
		}
		if sh.hasW && sh.w.gid != g.id && sh.w.t > g.clk[sh.w.gid] {
			ps.reportRace(fr, "read", sh.w, "write")
		}
		found := false
		for i := range sh.reads {
			if sh.reads[i].gid == g.id {
				sh.reads[i].t = g.clk[g.id]
				found = true
			}
		}
		if !found {
			fn, pos := ps.accessSite(fr)
			sh.reads = append(sh.reads, epoch{gid: g.id, t: g.clk[g.id], pos: pos, fn: fn, harness: ps.eng.isHarnessFn(fr.fn)})
		}
	}
}

func (ps *pathState) onWrite(fr *frame, addr *value) {
	if !ps.raceOn() {
		return
	}
	g := ps.sched.cur
	for _, cell := range leafCells(addr, nil) {
		ps.writeCell(fr, g, cell)
	}
}

func (ps *pathState) writeCell(fr *frame, g *goroutine, cell *value) {
	sh := ps.shadow[cell]
	if sh == nil {
		sh = &shadow{}
		ps.shadow[cell] = sh
	}
	if sh.hasW && sh.w.gid != g.id && sh.w.t > g.clk[sh.w.gid] {
		ps.reportRace(fr, "write", sh.w, "write")
	}
	for _, r := range sh.reads {
		if r.gid != g.id && r.t > g.clk[r.gid] {
			ps.reportRace(fr, "write", r, "read")
		}
	}
	wfn, wpos := ps.accessSite(fr)
	sh.w = epoch{gid: g.id, t: g.clk[g.id], pos: wpos, fn: wfn, harness: ps.eng.isHarnessFn(fr.fn)}
	sh.hasW = true
	sh.reads = sh.reads[:0]
}

func (ps *pathState) onWriteSlice(fr *frame, cells []value) {
	if !ps.raceOn() {
		return
	}
	g := ps.sched.cur
	for i := range cells {
		ps.writeCell(fr, g, &cells[i])
	}
}

func (ps *pathState) reportRace(fr *frame, kind string, prev epoch, prevKind string) {
	if !ps.eng.isRepoFn(fr.fn) {
		return
	}
	if prev.harness && ps.eng.isHarnessFn(fr.fn) && !ps.eng.litmus {
		// both accesses are in harness code: not a property of the repository
		ps.harnessRaces++
		return
	}
	site := ps.siteOf(fr)
	prevSite := ps.epochSite(prev)
	label := fmt.Sprintf("data race: %s at %s vs earlier %s at %s", kind, site, prevKind, prevSite)
	key := "race|" + site + "|" + prevSite
	if ps.raceSeen[key] {
		return
	}
	ps.raceSeen[key] = true
	ps.violation("race", label, site, nil)
}
