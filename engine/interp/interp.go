// Copyright 2013 The Go Authors. All rights reserved.
// Use of this source code is governed by a BSD-style
// license that can be found in the LICENSE file.

// Package ssa/interp defines an interpreter for the SSA
// representation of Go programs.
//
// This interpreter is provided as an adjunct for testing the SSA
// construction algorithm.  Its purpose is to provide a minimal
// metacircular implementation of the dynamic semantics of each SSA
// instruction.  It is not, and will never be, a production-quality Go
// interpreter.
//
// The following is a partial list of Go features that are currently
// unsupported or incomplete in the interpreter.
//
// * Unsafe operations, including all uses of unsafe.Pointer, are
// impossible to support given the "boxed" value representation we
// have chosen.
//
// * The reflect package is only partially implemented.
//
// * The "testing" package is no longer supported because it
// depends on low-level details that change too often.
//
// * "sync/atomic" operations are not atomic due to the "boxed" value
// representation: it is not possible to read, modify and write an
// interface value atomically. As a consequence, Mutexes are currently
// broken.
//
// * recover is only partially implemented.  Also, the interpreter
// makes no attempt to distinguish target panics from interpreter
// crashes.
//
// * the sizes of the int, uint and uintptr types in the target
// program are assumed to be the same as those of the interpreter
// itself.
//
// * all values occupy space, even those of types defined by the spec
// to have zero size, e.g. struct{}.  This can cause asymptotic
// performance degradation.
//
// * os.Exit is implemented using panic, causing deferred functions to
// run.
package interp // import "golang.org/x/tools/go/ssa/interp"

import (
	"fmt"
	"go/token"
	"go/types"
	"os"
	"runtime"
	"runtime/debug"
	"slices"
	"strings"

	"golang.org/x/tools/go/ssa"

	"symgo/smt"
)

// This file is a fork of golang.org/x/tools v0.29.0 go/ssa/interp/interp.go,
// changed to execute symbolically (see DESIGN.md section 2).


type continuation int

const (
	kNext continuation = iota
	kReturn
	kJump
)

// Mode is a bitmask of options affecting the interpreter.
type Mode uint

const (
	DisableRecover Mode = 1 << iota // Disable recover() in target programs; show interpreter crash instead.
	EnableTracing                   // Print a trace of all instructions as they are interpreted.
)

type methodSet map[string]*ssa.Function

// State of one path execution (one interpreter per explored path).
type interpreter struct {
	prog               *ssa.Program
	globals            map[*ssa.Global]*value // addresses of global variables
	mode               Mode
	eng                *Engine
	ps                 *pathState
	sizes              types.Sizes
	runtimeErrorString types.Type
	initDone           map[*ssa.Package]bool
}

type deferred struct {
	fn    value
	args  []value
	instr *ssa.Defer
	tail  *deferred
}

type frame struct {
	i                *interpreter
	caller           *frame
	fn               *ssa.Function
	block, prevBlock *ssa.BasicBlock
	env              []value // dynamic values of SSA variables, indexed by fi.idx
	fi               *fnInfo
	locals           []value
	defers           *deferred
	result           value
	panicking        bool
	panic            interface{}
	phitemps         []value // temporaries for parallel phi assignment
	pos              token.Pos
	ext              bool // frame of an environment model (external)
}

func mustDeref(t types.Type) types.Type {
	if p, ok := t.Underlying().(*types.Pointer); ok {
		return p.Elem()
	}
	panic(fmt.Sprintf("mustDeref: not a pointer: %s", t))
}

func (fr *frame) get(key ssa.Value) value {
	switch key := key.(type) {
	case nil:
		// Hack; simplifies handling of optional attributes
		// such as ssa.Slice.{Low,High}.
		return nil
	case *ssa.Function, *ssa.Builtin:
		return key
	case *ssa.Const:
		return constValue(key)
	case *ssa.Global:
		fr.i.checkInitialised(key)
		if r, ok := fr.i.globals[key]; ok {
			return r
		}
		// globals are materialised lazily (zero value) on first use
		cell := zero(mustDeref(key.Type()))
		fr.i.globals[key] = &cell
		return &cell
	}
	if i, ok := fr.fi.idx[key]; ok {
		if r := fr.env[i]; r != nil {
			if _, ok := r.(noValue); ok {
				return nil
			}
			return r
		}
	}
	panic(fmt.Sprintf("get: no value for %T: %v", key, key.Name()))
}

// isEngineAbort reports whether a recovered panic value is an engine-level
// abort (path end / unsupported feature) rather than a target panic.
func isEngineAbort(r interface{}) bool {
	switch r.(type) {
	case abortPath, unsupported:
		return true
	}
	return false
}

// runDefer runs a deferred call d.
// It always returns normally, but may set or clear fr.panic.
func (fr *frame) runDefer(d *deferred) {
	var ok bool
	defer func() {
		if !ok {
			// Deferred call created a new state of panic.
			r := recover()
			if isEngineAbort(r) {
				panic(r)
			}
			fr.panicking = true
			fr.panic = r
		}
	}()
	call(fr.i, fr, d.instr.Pos(), d.fn, d.args)
	ok = true
}

// runDefers executes fr's deferred function calls in LIFO order.
func (fr *frame) runDefers() {
	for d := fr.defers; d != nil; d = d.tail {
		fr.runDefer(d)
	}
	fr.defers = nil
	if fr.panicking {
		panic(fr.panic) // new panic, or still panicking
	}
}

// lookupMethod returns the method set for type typ, which may be one
// of the interpreter's fake types.
func lookupMethod(i *interpreter, typ types.Type, meth *types.Func) *ssa.Function {
	switch typ {
	case rtypeType:
		return i.eng.rtypeMethods[meth.Id()]
	case errorType:
		return i.eng.errorMethods[meth.Id()]
	}
	return i.prog.LookupMethod(typ, meth.Pkg(), meth.Name())
}

func (fr *frame) ps() *pathState { return fr.i.ps }

// set stores the value of SSA variable key.  A nil interpreter value (e.g. the
// result of a call without results) is stored as noValue so that "unset" can be
// told apart.
func (fr *frame) set(key ssa.Value, v value) {
	if v == nil {
		v = noValue{}
	}
	fr.env[fr.fi.idx[key]] = v
}

type noValue struct{}

// fnInfo numbers the SSA values of a function (parameters, free variables,
// locals and value-producing instructions) so that a frame's environment is a
// slice instead of a map.
type fnInfo struct {
	idx      map[ssa.Value]int
	n        int
	name     string
	nblocks  int
	ext      externalFn
	api      apiFn
	skipInit bool
	seenOnce bool
}

func (e *Engine) infoOf(fn *ssa.Function) *fnInfo {
	if v, ok := e.fnInfos.Load(fn); ok {
		return v.(*fnInfo)
	}
	fi := &fnInfo{idx: map[ssa.Value]int{}, name: fn.String(), nblocks: len(fn.Blocks)}
	if fn.Parent() == nil {
		fi.skipInit = fn.Synthetic == "package initializer" && fn.Pkg != nil && !e.runsInit(fn.Pkg)
		fi.api = e.apiFor(fn)
		fi.ext = externals[fi.name]
	}
	add := func(v ssa.Value) {
		if _, ok := fi.idx[v]; !ok {
			fi.idx[v] = fi.n
			fi.n++
		}
	}
	for _, p := range fn.Params {
		add(p)
	}
	for _, fv := range fn.FreeVars {
		add(fv)
	}
	for _, l := range fn.Locals {
		add(l)
	}
	for _, b := range fn.Blocks {
		for _, ins := range b.Instrs {
			if v, ok := ins.(ssa.Value); ok {
				add(v)
			}
		}
	}
	if fn.Recover != nil {
		for _, ins := range fn.Recover.Instrs {
			if v, ok := ins.(ssa.Value); ok {
				add(v)
			}
		}
	}
	e.fnInfos.Store(fn, fi)
	return fi
}

// truth decides a (possibly symbolic) boolean, forking if needed.
func (fr *frame) truth(v value) bool {
	switch c := v.(type) {
	case bool:
		return c
	case symv:
		return fr.i.ps.branch(c.t)
	}
	panic(fmt.Sprintf("truth: not a bool: %T", v))
}

// runtimePanic raises a Go run-time error in the target program.
func runtimePanic(msg string) {
	panic("runtime error: " + msg)
}

// to64 widens an integer term to 64 bits according to its kind.
func to64(c *smt.Ctx, s symv) *smt.Term {
	if kindSigned(s.k) {
		return c.SExt(s.t, 64)
	}
	return c.ZExt(s.t, 64)
}

// concIndex turns an index value into a concrete in-range index, raising the
// out-of-range panic on the paths where that is feasible.
func (fr *frame) concIndex(idx value, n int) int {
	if s, ok := idx.(symv); ok {
		ps := fr.i.ps
		c := ps.ctx
		t := to64(c, s)
		inb := c.ULt(t, c.Const(64, uint64(n)))
		if !ps.branch(inb) {
			runtimePanic(fmt.Sprintf("index out of range [symbolic] with length %d", n))
		}
		return int(ps.concretize(t, "index"))
	}
	i := asInt64(idx)
	if i < 0 || i >= int64(n) {
		runtimePanic(fmt.Sprintf("index out of range [%d] with length %d", i, n))
	}
	return int(i)
}

// concInt concretises an integer value (forking over feasible values).
func (fr *frame) concInt(v value, what string) int64 {
	if s, ok := v.(symv); ok {
		ps := fr.i.ps
		t := to64(ps.ctx, s)
		return int64(ps.concretize(t, what))
	}
	return asInt64(v)
}

// symSlice handles x[lo:hi:max] when a bound is symbolic.
func (fr *frame) sliceOp(x, lo, hi, max value) value {
	if !isSym(lo) && !isSym(hi) && !isSym(max) {
		if _, ok := x.(sstr); !ok {
			return slice(x, lo, hi, max)
		}
	}
	ps := fr.i.ps
	c := ps.ctx
	var Len, Cap int
	switch x := x.(type) {
	case string:
		Len = len(x)
		Cap = Len
	case sstr:
		Len = len(x.b)
		Cap = Len
	case []value:
		Len, Cap = len(x), cap(x)
	case *value:
		a := (*x).(array)
		Len, Cap = len(a), len(a)
	}
	term := func(v value, def int) *smt.Term {
		if v == nil {
			return c.Const(64, uint64(def))
		}
		if s, ok := v.(symv); ok {
			return to64(c, s)
		}
		return c.Const(64, uint64(asInt64(v)))
	}
	tl := term(lo, 0)
	th := term(hi, Len)
	tm := term(max, Cap)
	// 0 <= lo <= hi <= max <= cap  (signed)
	ok := c.BAndN(c.SLe(c.Const(64, 0), tl), c.SLe(tl, th), c.SLe(th, tm), c.SLe(tm, c.Const(64, uint64(Cap))))
	if !ps.branch(ok) {
		runtimePanic("slice bounds out of range [symbolic]")
	}
	l := int(ps.concretize(tl, "slice low"))
	h := int(ps.concretize(th, "slice high"))
	m := int(ps.concretize(tm, "slice max"))
	switch x := x.(type) {
	case sstr:
		return mkStr(x.b[l:h])
	}
	return slice(x, l, h, m)
}

// visitInstr interprets a single ssa.Instruction within the activation
// record frame.  It returns a continuation value indicating where to
// read the next instruction from.
func visitInstr(fr *frame, instr ssa.Instruction) continuation {
	ps := fr.i.ps
	ps.steps++
	if ps.steps&0x3ff == 0 {
		if ps.steps > ps.eng.Cfg.MaxSteps {
			ps.inconclusive(fmt.Sprintf("step budget %d exhausted (unwinding limit) in %s", ps.eng.Cfg.MaxSteps, fr.fn))
		}
		if ps.sched.aborting {
			panic(ps.sched.abortStat)
		}
	}
	if p := instr.Pos(); p.IsValid() {
		fr.pos = p
	}
	switch instr := instr.(type) {
	case *ssa.DebugRef:
		// no-op

	case *ssa.UnOp:
		fr.set(instr, fr.unop(instr, fr.get(instr.X)))

	case *ssa.BinOp:
		fr.set(instr, fr.binop(instr.Op, instr.X.Type(), fr.get(instr.X), fr.get(instr.Y)))

	case *ssa.Call:
		fn, args := prepareCall(fr, &instr.Call)
		fr.set(instr, call(fr.i, fr, instr.Pos(), fn, args))

	case *ssa.ChangeInterface:
		fr.set(instr, fr.get(instr.X))

	case *ssa.ChangeType:
		fr.set(instr, fr.get(instr.X)) // (can't fail)

	case *ssa.Convert:
		fr.set(instr, fr.conv(instr.Type(), instr.X.Type(), fr.get(instr.X)))

	case *ssa.SliceToArrayPointer:
		fr.set(instr, sliceToArrayPointer(instr.Type(), instr.X.Type(), fr.get(instr.X)))

	case *ssa.MakeInterface:
		fr.set(instr, iface{t: instr.X.Type(), v: fr.get(instr.X)})

	case *ssa.Extract:
		fr.set(instr, fr.get(instr.Tuple).(tuple)[instr.Index])

	case *ssa.Slice:
		fr.set(instr, fr.sliceOp(fr.get(instr.X), fr.get(instr.Low), fr.get(instr.High), fr.get(instr.Max)))

	case *ssa.Return:
		switch len(instr.Results) {
		case 0:
		case 1:
			fr.result = fr.get(instr.Results[0])
		default:
			var res []value
			for _, r := range instr.Results {
				res = append(res, fr.get(r))
			}
			fr.result = tuple(res)
		}
		fr.block = nil
		return kReturn

	case *ssa.RunDefers:
		fr.runDefers()

	case *ssa.Panic:
		panic(targetPanic{fr.get(instr.X)})

	case *ssa.Send:
		fr.chanSend(fr.get(instr.Chan).(*channel), fr.get(instr.X))

	case *ssa.Store:
		addr := fr.get(instr.Addr).(*value)
		if addr == nil {
			runtimePanic("invalid memory address or nil pointer dereference")
		}
		ps.onWrite(fr, addr)
		store(mustDeref(instr.Addr.Type()), addr, fr.get(instr.Val))

	case *ssa.If:
		succ := 1
		if fr.truth(fr.get(instr.Cond)) {
			succ = 0
		}
		fr.prevBlock, fr.block = fr.block, fr.block.Succs[succ]
		return kJump

	case *ssa.Jump:
		fr.prevBlock, fr.block = fr.block, fr.block.Succs[0]
		return kJump

	case *ssa.Defer:
		fn, args := prepareCall(fr, &instr.Call)
		defers := &fr.defers
		if into := fr.get(instr.DeferStack); into != nil {
			defers = into.(**deferred)
		}
		*defers = &deferred{
			fn:    fn,
			args:  args,
			instr: instr,
			tail:  *defers,
		}

	case *ssa.Go:
		fn, args := prepareCall(fr, &instr.Call)
		i := fr.i
		pos := instr.Pos()
		name := fmt.Sprintf("%v@%s", describeFn(fn), shortPos(i.prog.Fset, pos))
		ps.sched.spawn(name, func() {
			call(i, nil, pos, fn, args)
		})

	case *ssa.MakeChan:
		n := fr.concInt(fr.get(instr.Size), "chan size")
		fr.set(instr, ps.sched.newChannel(instr.Type().Underlying().(*types.Chan).Elem(), int(n)))

	case *ssa.Alloc:
		var addr *value
		if instr.Heap {
			// new
			addr = new(value)
			fr.set(instr, addr)
			ps.allocConst(fr, fr.i.sizes.Sizeof(mustDeref(instr.Type())))
		} else {
			// local
			addr = fr.env[fr.fi.idx[instr]].(*value)
		}
		*addr = zero(mustDeref(instr.Type()))

	case *ssa.MakeSlice:
		tElt := instr.Type().Underlying().(*types.Slice).Elem()
		n, c := fr.makeSliceSizes(fr.get(instr.Len), fr.get(instr.Cap), tElt)
		sl := make([]value, c)
		for i := range sl {
			sl[i] = zero(tElt)
		}
		fr.set(instr, sl[:n])

	case *ssa.MakeMap:
		fr.set(instr, newOmap(instr.Type().Underlying().(*types.Map).Key()))

	case *ssa.Range:
		if m, ok := fr.get(instr.X).(*omap); ok && m != nil {
			ps.onRead(fr, m.cell())
		}
		fr.set(instr, rangeIter(fr, fr.get(instr.X), instr.X.Type()))

	case *ssa.Next:
		fr.set(instr, fr.get(instr.Iter).(iter).next())

	case *ssa.FieldAddr:
		p := fr.get(instr.X).(*value)
		if p == nil {
			runtimePanic("invalid memory address or nil pointer dereference")
		}
		fr.set(instr, &(*p).(structure)[instr.Field])

	case *ssa.Field:
		fr.set(instr, fr.get(instr.X).(structure)[instr.Field])

	case *ssa.IndexAddr:
		x := fr.get(instr.X)
		idx := fr.get(instr.Index)
		switch x := x.(type) {
		case []value:
			fr.set(instr, &x[fr.concIndex(idx, len(x))])
		case *value: // *array
			if x == nil {
				runtimePanic("invalid memory address or nil pointer dereference")
			}
			a := (*x).(array)
			fr.set(instr, &a[fr.concIndex(idx, len(a))])
		default:
			panic(fmt.Sprintf("unexpected x type in IndexAddr: %T", x))
		}

	case *ssa.Index:
		x := fr.get(instr.X)
		idx := fr.get(instr.Index)

		switch x := x.(type) {
		case array:
			fr.set(instr, x[fr.concIndex(idx, len(x))])
		case string:
			fr.set(instr, x[fr.concIndex(idx, len(x))])
		case sstr:
			fr.set(instr, x.b[fr.concIndex(idx, len(x.b))])
		default:
			panic(fmt.Sprintf("unexpected x type in Index: %T", x))
		}

	case *ssa.Lookup:
		fr.set(instr, fr.lookup(instr, fr.get(instr.X), fr.get(instr.Index)))

	case *ssa.MapUpdate:
		m := fr.get(instr.Map).(*omap)
		if m == nil {
			panic(targetPanic{iface{fr.i.runtimeErrorString, "assignment to entry in nil map"}})
		}
		ps.onWrite(fr, m.cell())
		m.insert(ps, fr.get(instr.Key), fr.get(instr.Value))

	case *ssa.TypeAssert:
		fr.set(instr, typeAssert(fr.i, instr, fr.get(instr.X).(iface)))

	case *ssa.MakeClosure:
		var bindings []value
		for _, binding := range instr.Bindings {
			bindings = append(bindings, fr.get(binding))
		}
		fr.set(instr, &closure{instr.Fn.(*ssa.Function), bindings})

	case *ssa.Phi:
		panic("unreachable") // phis are processed at block entry

	case *ssa.Select:
		fr.set(instr, fr.selectOp(instr))

	default:
		panic(fmt.Sprintf("unexpected instruction: %T", instr))
	}

	return kNext
}

func describeFn(fn value) string {
	switch fn := fn.(type) {
	case *ssa.Function:
		return fn.String()
	case *closure:
		return fn.Fn.String()
	case *ssa.Builtin:
		return fn.Name()
	}
	return "?"
}

func shortPos(fset *token.FileSet, pos token.Pos) string {
	if !pos.IsValid() {
		return "?"
	}
	p := fset.Position(pos)
	f := p.Filename
	if i := strings.LastIndexByte(f, '/'); i >= 0 {
		f = f[i+1:]
	}
	return fmt.Sprintf("%s:%d", f, p.Line)
}

// makeSliceSizes checks and concretises the sizes of make([]T, len, cap).
func (fr *frame) makeSliceSizes(lenV, capV value, tElt types.Type) (int, int) {
	ps := fr.i.ps
	esz := fr.i.sizes.Sizeof(tElt)
	if !isSym(lenV) && !isSym(capV) {
		n, c := asInt64(lenV), asInt64(capV)
		if n < 0 {
			runtimePanic("makeslice: len out of range")
		}
		if c < n {
			runtimePanic("makeslice: cap out of range")
		}
		ps.allocConst(fr, c*esz)
		if c > ps.eng.Cfg.MaxConcreteAlloc {
			ps.inconclusive(fmt.Sprintf("concrete allocation of %d elements exceeds engine limit", c))
		}
		return int(n), int(c)
	}
	c := ps.ctx
	term := func(v value) *smt.Term {
		if s, ok := v.(symv); ok {
			return to64(c, s)
		}
		return c.Const(64, uint64(asInt64(v)))
	}
	tn, tc := term(lenV), term(capV)
	ok := c.BAnd(c.SLe(c.Const(64, 0), tn), c.SLe(tn, tc))
	if !ps.branch(ok) {
		runtimePanic("makeslice: len out of range")
	}
	// Go also panics when the byte size exceeds the address space
	maxElems := uint64(1<<47) / uint64(maxI64(esz, 1))
	if !ps.branch(c.ULe(tc, c.Const(64, maxElems))) {
		runtimePanic("makeslice: len out of range")
	}
	prevTotal := ps.allocTotal
	ps.allocTerm(fr, c.Mul(tc, c.Const(64, uint64(esz))))
	n := int(ps.concretize(tn, "make len"))
	cc := int(ps.concretize(tc, "make cap"))
	if ps.allocOpen && prevTotal != nil {
		// the size is concrete from here on; keep the running total concrete
		ps.allocTotal = c.Add(prevTotal, c.Const(64, uint64(int64(cc)*esz)))
	}
	if int64(cc) > ps.eng.Cfg.MaxConcreteAlloc {
		ps.inconclusive(fmt.Sprintf("allocation of %d elements exceeds engine limit", cc))
	}
	return n, cc
}

func maxI64(a, b int64) int64 {
	if a > b {
		return a
	}
	return b
}

// prepareCall determines the function value and argument values for a
// function call in a Call, Go or Defer instruction, performing
// interface method lookup if needed.
func prepareCall(fr *frame, call *ssa.CallCommon) (fn value, args []value) {
	v := fr.get(call.Value)
	if call.Method == nil {
		// Function call.
		fn = v
	} else {
		// Interface method invocation.
		recv := v.(iface)
		if recv.t == nil {
			runtimePanic("invalid memory address or nil pointer dereference (method call on nil interface)")
		}
		if f := lookupMethod(fr.i, recv.t, call.Method); f == nil {
			// Unreachable in well-typed programs.
			panic(fmt.Sprintf("method set for dynamic type %v does not contain %s", recv.t, call.Method))
		} else {
			fn = f
		}
		args = append(args, recv.v)
	}
	for _, arg := range call.Args {
		args = append(args, fr.get(arg))
	}
	return
}

// call interprets a call to a function (function, builtin or closure)
// fn with arguments args, returning its result.
// callpos is the position of the callsite.
func call(i *interpreter, caller *frame, callpos token.Pos, fn value, args []value) value {
	switch fn := fn.(type) {
	case *ssa.Function:
		if fn == nil {
			runtimePanic("invalid memory address or nil pointer dereference (call of nil func)")
		}
		return callSSA(i, caller, callpos, fn, args, nil)
	case *closure:
		return callSSA(i, caller, callpos, fn.Fn, args, fn.Env)
	case *ssa.Builtin:
		return callBuiltin(caller, callpos, fn, args)
	}
	panic(fmt.Sprintf("cannot call %T", fn))
}

func loc(fset *token.FileSet, pos token.Pos) string {
	if pos == token.NoPos {
		return ""
	}
	return " at " + fset.Position(pos).String()
}

// callSSA interprets a call to function fn with arguments args,
// and lexical environment env, returning its result.
// callpos is the position of the callsite.
func callSSA(i *interpreter, caller *frame, callpos token.Pos, fn *ssa.Function, args []value, env []value) value {
	if i.mode&EnableTracing != 0 {
		fset := fn.Prog.Fset
		fmt.Fprintf(os.Stderr, "Entering %s%s.\n", fn, loc(fset, fn.Pos()))
		suffix := ""
		if caller != nil {
			suffix = ", resuming " + caller.fn.String() + loc(fset, callpos)
		}
		defer fmt.Fprintf(os.Stderr, "Leaving %s%s.\n", fn, suffix)
	}
	fr := &frame{
		i:      i,
		caller: caller, // for panic/recover
		fn:     fn,
	}
	fi := i.eng.infoOf(fn)
	if fn.Parent() == nil {
		if fi.skipInit {
			return nil
		}
		if fi.api != nil {
			fr.ext = true
			return fi.api(fr, args)
		}
		if fi.ext != nil {
			i.ps.stubs[fi.name]++
			fr.ext = true
			if caller != nil {
				fr.pos = caller.pos
			}
			return fi.ext(fr, args)
		}
		if fn.Blocks == nil {
			panic(unsupported{"no code for function: " + fi.name})
		}
	}

	// generic function body?
	if fn.TypeParams().Len() > 0 && len(fn.TypeArgs()) == 0 {
		panic(unsupported{"uninstantiated generic function " + fn.String()})
	}
	if !fi.seenOnce {
		// (benign race: worst case the name is recorded more than once)
		fi.seenOnce = true
	}
	i.ps.fnSeenFi[fi] = struct{}{}

	fr.fi = fi
	fr.env = make([]value, fr.fi.n)
	fr.block = fn.Blocks[0]
	fr.locals = make([]value, len(fn.Locals))
	for i, l := range fn.Locals {
		fr.locals[i] = zero(mustDeref(l.Type()))
		fr.env[fr.fi.idx[l]] = &fr.locals[i]
	}
	for i, p := range fn.Params {
		fr.env[fr.fi.idx[p]] = args[i]
	}
	for i, fv := range fn.FreeVars {
		fr.env[fr.fi.idx[fv]] = env[i]
	}
	var s0 int64
	if fn.Synthetic == "package initializer" && os.Getenv("SYMGO_INITPROF") != "" {
		s0 = i.ps.steps
	}
	for fr.block != nil {
		runFrame(fr)
	}
	if fn.Synthetic == "package initializer" && os.Getenv("SYMGO_INITPROF") != "" {
		fmt.Fprintf(os.Stderr, "init %s: %d steps (cumulative incl. deps)\n", fn.Pkg.Pkg.Path(), i.ps.steps-s0)
	}
	// Destroy the locals to avoid accidental use after return.
	for i := range fn.Locals {
		fr.locals[i] = bad{}
	}
	return fr.result
}

// runFrame executes SSA instructions starting at fr.block and
// continuing until a return, a panic, or a recovered panic.
func runFrame(fr *frame) {
	defer func() {
		if fr.block == nil {
			return // normal return
		}
		r := recover()
		if isEngineAbort(r) {
			panic(r)
		}
		if fr.i.mode&DisableRecover != 0 {
			panic(r)
		}
		if re, ok := r.(runtime.Error); ok {
			// target run-time errors are raised explicitly (runtimePanic); a run-time
			// error of the host is the interpreter itself failing on something it
			// does not model: the path is inconclusive, never a finding
			if os.Getenv("SYMGO_STACK") != "" {
				fmt.Fprintf(os.Stderr, "host stack for %v:\n%s\n", r, debug.Stack())
			}
			panic(unsupported{"host run-time error inside the interpreter (engine limitation) at " + fr.i.ps.siteOf(fr) + ": " + re.Error()})
		}
		fr.i.ps.notePanicSite(fr)
		fr.panicking = true
		fr.panic = r
		if fr.i.mode&EnableTracing != 0 {
			fmt.Fprintf(os.Stderr, "Panicking: %T %v.\n", fr.panic, fr.panic)
		}
		fr.runDefers()
		fr.block = fr.fn.Recover
	}()

	for {
		if fr.i.mode&EnableTracing != 0 {
			fmt.Fprintf(os.Stderr, ".%s:\n", fr.block)
		}

		nonPhis := executePhis(fr)
		for _, instr := range nonPhis {
			if fr.i.mode&EnableTracing != 0 {
				if v, ok := instr.(ssa.Value); ok {
					fmt.Fprintln(os.Stderr, "\t", v.Name(), "=", instr)
				} else {
					fmt.Fprintln(os.Stderr, "\t", instr)
				}
			}
			if visitInstr(fr, instr) == kReturn {
				return
			}
			// Inv: kNext (continue) or kJump (last instr)
		}
	}
}

// executePhis executes the phi-nodes at the start of the current
// block and returns the non-phi instructions.
func executePhis(fr *frame) []ssa.Instruction {
	firstNonPhi := -1
	for i, instr := range fr.block.Instrs {
		if _, ok := instr.(*ssa.Phi); !ok {
			firstNonPhi = i
			break
		}
	}
	// Inv: 0 <= firstNonPhi; every block contains a non-phi.

	nonPhis := fr.block.Instrs[firstNonPhi:]
	if firstNonPhi > 0 {
		phis := fr.block.Instrs[:firstNonPhi]
		predIndex := slices.Index(fr.block.Preds, fr.prevBlock)
		fr.phitemps = fr.phitemps[:0]
		for _, phi := range phis {
			phi := phi.(*ssa.Phi)
			fr.phitemps = append(fr.phitemps, fr.get(phi.Edges[predIndex]))
		}
		for i, phi := range phis {
			fr.set(phi.(*ssa.Phi), fr.phitemps[i])
		}
	}
	return nonPhis
}

// doRecover implements the recover() built-in.
func doRecover(caller *frame) value {
	// recover() must be exactly one level beneath the deferred
	// function (two levels beneath the panicking function) to
	// have any effect.  Thus we ignore both "defer recover()" and
	// "defer f() -> g() -> recover()".
	if caller.i.mode&DisableRecover == 0 &&
		caller != nil && !caller.panicking &&
		caller.caller != nil && caller.caller.panicking {
		caller.caller.panicking = false
		p := caller.caller.panic
		caller.caller.panic = nil

		switch p := p.(type) {
		case targetPanic:
			// The target program explicitly called panic().
			return p.v
		case runtime.Error:
			// The interpreter encountered a runtime error.
			return iface{caller.i.runtimeErrorString, p.Error()}
		case string:
			// The interpreter explicitly called panic().
			return iface{caller.i.runtimeErrorString, p}
		default:
			panic(fmt.Sprintf("unexpected panic type %T in target call to recover()", p))
		}
	}
	return iface{}
}

// --- channel operations through the scheduler --------------------------------

// atomicCtx reports whether fr executes inside an environment package whose
// functions run without preemption.
func (fr *frame) atomicCtx() bool {
	for f := fr; f != nil; f = f.caller {
		if f.ext || f.fn.Blocks == nil {
			continue // environment model: look at its caller
		}
		return !fr.i.eng.preemptible(f.fn)
	}
	return false
}

func (fr *frame) doOp(op *pendingOp) {
	s := fr.i.ps.sched
	op.fr = fr
	isChan := op.kind == opSend || op.kind == opRecv || op.kind == opSelect
	if !isChan && fr.atomicCtx() {
		if s.tryInline(op) {
			return
		}
	}
	s.park(op)
}

func (fr *frame) chanSend(ch *channel, v value) {
	op := &pendingOp{kind: opSend, ch: ch, val: v}
	fr.doOp(op)
	if op.panicMsg != "" {
		panic(targetPanic{iface{fr.i.runtimeErrorString, op.panicMsg}})
	}
}

func (fr *frame) chanRecv(ch *channel, elem types.Type, commaOk bool) value {
	op := &pendingOp{kind: opRecv, ch: ch}
	fr.doOp(op)
	v := op.recvVal
	if !op.recvOK {
		v = zero(elem)
	}
	if commaOk {
		return tuple{v, op.recvOK}
	}
	return v
}

func (fr *frame) chanClose(ch *channel) {
	if ch == nil {
		panic(targetPanic{iface{fr.i.runtimeErrorString, "close of nil channel"}})
	}
	if ch.closed {
		panic(targetPanic{iface{fr.i.runtimeErrorString, "close of closed channel"}})
	}
	// close never blocks; it is a visible operation nonetheless (also inside
	// environment packages: its effect on waiting selects must be a declared
	// transition for the sleep-set reduction to be sound)
	fr.i.ps.sched.park(&pendingOp{kind: opResume, obj: ch, fr: fr})
	if ch.closed {
		panic(targetPanic{iface{fr.i.runtimeErrorString, "close of closed channel"}})
	}
	ch.closed = true
	g := fr.i.ps.sched.cur
	ch.clk = ch.clk.join(g.clk)
	g.clk = g.clk.tick(g.id)
}

func (fr *frame) selectOp(instr *ssa.Select) value {
	op := &pendingOp{kind: opSelect, hasDefault: !instr.Blocking}
	for _, st := range instr.States {
		c := selCase{send: st.Dir == types.SendOnly, ch: fr.get(st.Chan).(*channel)}
		if st.Send != nil {
			c.val = fr.get(st.Send)
		}
		op.cases = append(op.cases, c)
	}
	fr.doOp(op)
	if op.panicMsg != "" {
		panic(targetPanic{iface{fr.i.runtimeErrorString, op.panicMsg}})
	}
	chosen := op.chosen
	recvOk := false
	if chosen >= 0 && !op.cases[chosen].send {
		recvOk = op.recvOK
	}
	r := tuple{chosen, recvOk}
	for i, st := range instr.States {
		if st.Dir == types.RecvOnly {
			var v value
			if i == chosen && recvOk {
				v = op.recvVal
			} else {
				v = zero(st.Chan.Type().Underlying().(*types.Chan).Elem())
			}
			r = append(r, v)
		}
	}
	return r
}
