// Copyright 2013 The Go Authors. All rights reserved.
// Use of this source code is governed by a BSD-style
// license that can be found in the LICENSE file.

package interp

// Emulated "reflect" package.
//
// We completely replace the built-in "reflect" package.
// The only thing clients can depend upon are that reflect.Type is an
// interface and reflect.Value is an (opaque) struct.

import (
	"fmt"
	"go/token"
	"go/types"
	"reflect"

	"golang.org/x/tools/go/ssa"
)

type opaqueType struct {
	types.Type
	name string
}

func (t *opaqueType) String() string { return t.name }

// A bogus "reflect" type-checker package.  Shared across interpreters.
var reflectTypesPackage = types.NewPackage("reflect", "reflect")

// rtype is the concrete type the interpreter uses to implement the
// reflect.Type interface.
//
// type rtype <opaque>
var rtypeType = makeNamedType("rtype", &opaqueType{nil, "rtype"})

// error is an (interpreted) named type whose underlying type is string.
// The interpreter uses it for all implementations of the built-in error
// interface that it creates.
// We put it in the "reflect" package for expedience.
//
// type error string
var errorType = makeNamedType("error", &opaqueType{nil, "error"})

func makeNamedType(name string, underlying types.Type) *types.Named {
	obj := types.NewTypeName(token.NoPos, reflectTypesPackage, name, nil)
	return types.NewNamed(obj, underlying, nil)
}

// A reflect.Value is modelled as structure{rtype, value, addr, flags}: addr is
// the interpreter cell holding the value when it is addressable (*value), or
// nil; flags bit 0 = obtained through an unexported field.
func makeReflectValue(t types.Type, v value) value {
	return structure{rtype{t}, v, (*value)(nil), 0}
}

func makeReflectValueAddr(t types.Type, addr *value, flags int) value {
	return structure{rtype{t}, load(t, addr), addr, flags}
}

func rVvalid(v value) bool {
	_, ok := v.(structure)[0].(rtype)
	return ok
}

func rVaddr(v value) *value {
	a, _ := v.(structure)[2].(*value)
	return a
}

func rVflags(v value) int {
	f, _ := v.(structure)[3].(int)
	return f
}

// rVcur returns the current value (re-reading the cell if addressable).
func rVcur(v value) value {
	if a := rVaddr(v); a != nil {
		return load(rV2T(v).t, a)
	}
	return rV2V(v)
}

// Given a reflect.Value, returns its rtype.
func rV2T(v value) rtype {
	return v.(structure)[0].(rtype)
}

// Given a reflect.Value, returns the underlying interpreter value.
func rV2V(v value) value {
	return v.(structure)[1]
}

// makeReflectType boxes up an rtype in a reflect.Type interface.
func makeReflectType(rt rtype) value {
	return iface{rtypeType, rt}
}

func ext۰reflect۰rtype۰Bits(fr *frame, args []value) value {
	// Signature: func (t reflect.rtype) int
	rt := args[0].(rtype).t
	basic, ok := rt.Underlying().(*types.Basic)
	if !ok {
		panic(fmt.Sprintf("reflect.Type.Bits(%T): non-basic type", rt))
	}
	return int(fr.i.sizes.Sizeof(basic)) * 8
}

func ext۰reflect۰rtype۰Elem(fr *frame, args []value) value {
	// Signature: func (t reflect.rtype) reflect.Type
	return makeReflectType(rtype{args[0].(rtype).t.Underlying().(interface {
		Elem() types.Type
	}).Elem()})
}

func ext۰reflect۰rtype۰Field(fr *frame, args []value) value {
	// Signature: func (t reflect.rtype, i int) reflect.StructField
	st := args[0].(rtype).t.Underlying().(*types.Struct)
	i := args[1].(int)
	f := st.Field(i)
	return structure{
		f.Name(),
		f.Pkg().Path(),
		makeReflectType(rtype{f.Type()}),
		st.Tag(i),
		0,         // TODO(adonovan): offset
		[]value{}, // TODO(adonovan): indices
		f.Anonymous(),
	}
}

func ext۰reflect۰rtype۰In(fr *frame, args []value) value {
	// Signature: func (t reflect.rtype, i int) int
	i := args[1].(int)
	return makeReflectType(rtype{args[0].(rtype).t.(*types.Signature).Params().At(i).Type()})
}

func ext۰reflect۰rtype۰Kind(fr *frame, args []value) value {
	// Signature: func (t reflect.rtype) uint
	return uint(reflectKind(args[0].(rtype).t))
}

func ext۰reflect۰rtype۰NumField(fr *frame, args []value) value {
	// Signature: func (t reflect.rtype) int
	return args[0].(rtype).t.Underlying().(*types.Struct).NumFields()
}

func ext۰reflect۰rtype۰NumIn(fr *frame, args []value) value {
	// Signature: func (t reflect.rtype) int
	return args[0].(rtype).t.Underlying().(*types.Signature).Params().Len()
}

func ext۰reflect۰rtype۰NumMethod(fr *frame, args []value) value {
	// Signature: func (t reflect.rtype) int
	return fr.i.prog.MethodSets.MethodSet(args[0].(rtype).t).Len()
}

func ext۰reflect۰rtype۰NumOut(fr *frame, args []value) value {
	// Signature: func (t reflect.rtype) int
	return args[0].(rtype).t.Underlying().(*types.Signature).Results().Len()
}

func ext۰reflect۰rtype۰Out(fr *frame, args []value) value {
	// Signature: func (t reflect.rtype, i int) int
	i := args[1].(int)
	return makeReflectType(rtype{args[0].(rtype).t.Underlying().(*types.Signature).Results().At(i).Type()})
}

func ext۰reflect۰rtype۰Size(fr *frame, args []value) value {
	// Signature: func (t reflect.rtype) uintptr
	return uintptr(fr.i.sizes.Sizeof(args[0].(rtype).t))
}

func ext۰reflect۰rtype۰String(fr *frame, args []value) value {
	// Signature: func (t reflect.rtype) string
	return args[0].(rtype).t.String()
}

func ext۰reflect۰New(fr *frame, args []value) value {
	// Signature: func (t reflect.Type) reflect.Value
	t := args[0].(iface).v.(rtype).t
	alloc := zero(t)
	fr.i.ps.allocConst(fr, fr.i.sizes.Sizeof(t))
	return makeReflectValue(types.NewPointer(t), &alloc)
}

func ext۰reflect۰SliceOf(fr *frame, args []value) value {
	// Signature: func (t reflect.rtype) Type
	return makeReflectType(rtype{types.NewSlice(args[0].(iface).v.(rtype).t)})
}

func ext۰reflect۰TypeOf(fr *frame, args []value) value {
	// Signature: func (t reflect.rtype) Type
	return makeReflectType(rtype{args[0].(iface).t})
}

func ext۰reflect۰ValueOf(fr *frame, args []value) value {
	// Signature: func (interface{}) reflect.Value
	itf := args[0].(iface)
	return makeReflectValue(itf.t, itf.v)
}

func ext۰reflect۰Zero(fr *frame, args []value) value {
	// Signature: func (t reflect.Type) reflect.Value
	t := args[0].(iface).v.(rtype).t
	return makeReflectValue(t, zero(t))
}

func reflectKind(t types.Type) reflect.Kind {
	switch t := t.(type) {
	case *types.Named, *types.Alias:
		return reflectKind(t.Underlying())
	case *types.Basic:
		switch t.Kind() {
		case types.Bool:
			return reflect.Bool
		case types.Int:
			return reflect.Int
		case types.Int8:
			return reflect.Int8
		case types.Int16:
			return reflect.Int16
		case types.Int32:
			return reflect.Int32
		case types.Int64:
			return reflect.Int64
		case types.Uint:
			return reflect.Uint
		case types.Uint8:
			return reflect.Uint8
		case types.Uint16:
			return reflect.Uint16
		case types.Uint32:
			return reflect.Uint32
		case types.Uint64:
			return reflect.Uint64
		case types.Uintptr:
			return reflect.Uintptr
		case types.Float32:
			return reflect.Float32
		case types.Float64:
			return reflect.Float64
		case types.Complex64:
			return reflect.Complex64
		case types.Complex128:
			return reflect.Complex128
		case types.String:
			return reflect.String
		case types.UnsafePointer:
			return reflect.UnsafePointer
		}
	case *types.Array:
		return reflect.Array
	case *types.Chan:
		return reflect.Chan
	case *types.Signature:
		return reflect.Func
	case *types.Interface:
		return reflect.Interface
	case *types.Map:
		return reflect.Map
	case *types.Pointer:
		return reflect.Ptr
	case *types.Slice:
		return reflect.Slice
	case *types.Struct:
		return reflect.Struct
	}
	panic(fmt.Sprint("unexpected type: ", t))
}

func ext۰reflect۰Value۰Kind(fr *frame, args []value) value {
	if !rVvalid(args[0]) {
		return uint(reflect.Invalid)
	}
	return uint(reflectKind(rV2T(args[0]).t))
}

func ext۰reflect۰Value۰String(fr *frame, args []value) value {
	v := rVcur(args[0])
	if isStrV(v) {
		return v
	}
	return "<" + rV2T(args[0]).t.String() + " Value>"
}

func ext۰reflect۰Value۰Type(fr *frame, args []value) value {
	return makeReflectType(rV2T(args[0]))
}

func ext۰reflect۰Value۰Uint(fr *frame, args []value) value {
	v := rVcur(args[0])
	if s, ok := v.(symv); ok {
		return mkSym(types.Uint64, resize(s.t.Ctx, s.t, s.k, types.Uint64))
	}
	switch v := v.(type) {
	case uint:
		return uint64(v)
	case uint8:
		return uint64(v)
	case uint16:
		return uint64(v)
	case uint32:
		return uint64(v)
	case uint64:
		return uint64(v)
	case uintptr:
		return uint64(v)
	}
	panic("reflect.Value.Uint")
}

func ext۰reflect۰Value۰Int(fr *frame, args []value) value {
	v := rVcur(args[0])
	if s, ok := v.(symv); ok {
		return mkSym(types.Int64, resize(s.t.Ctx, s.t, s.k, types.Int64))
	}
	switch x := v.(type) {
	case int:
		return int64(x)
	case int8:
		return int64(x)
	case int16:
		return int64(x)
	case int32:
		return int64(x)
	case int64:
		return x
	default:
		panic(fmt.Sprintf("reflect.Value.Int(%T)", x))
	}
}

func (fr *frame) rVset(rv value, nv value) {
	a := rVaddr(rv)
	if a == nil {
		panic(targetPanic{iface{fr.i.runtimeErrorString, "reflect: Set on unaddressable value"}})
	}
	fr.i.ps.onWrite(fr, a)
	store(rV2T(rv).t, a, nv)
}

func ext۰reflect۰Value۰SetUint(fr *frame, args []value) value {
	k := rV2T(args[0]).t.Underlying().(*types.Basic).Kind()
	x := args[1]
	if s, ok := x.(symv); ok {
		fr.rVset(args[0], mkSym(k, resize(s.t.Ctx, s.t, s.k, k)))
	} else {
		fr.rVset(args[0], concreteOf(k, asUint64(x)))
	}
	return nil
}

func ext۰reflect۰Value۰SetInt(fr *frame, args []value) value {
	k := rV2T(args[0]).t.Underlying().(*types.Basic).Kind()
	x := args[1]
	if s, ok := x.(symv); ok {
		fr.rVset(args[0], mkSym(k, resize(s.t.Ctx, s.t, s.k, k)))
	} else {
		fr.rVset(args[0], concreteOf(k, uint64(asInt64(x))))
	}
	return nil
}

func ext۰reflect۰Value۰SetBool(fr *frame, args []value) value {
	fr.rVset(args[0], args[1])
	return nil
}

func ext۰reflect۰Value۰SetString(fr *frame, args []value) value {
	fr.rVset(args[0], args[1])
	return nil
}

func ext۰reflect۰Value۰Len(fr *frame, args []value) value {
	switch v := rVcur(args[0]).(type) {
	case string:
		return len(v)
	case sstr:
		return len(v.b)
	case array:
		return len(v)
	case *channel:
		if v == nil {
			return 0
		}
		return len(v.buf)
	case []value:
		return len(v)
	case *omap:
		return v.len()
	default:
		panic(fmt.Sprintf("reflect.(Value).Len(%v)", v))
	}
}

func ext۰reflect۰Value۰NumField(fr *frame, args []value) value {
	return len(rV2V(args[0]).(structure))
}

func ext۰reflect۰Value۰NumMethod(fr *frame, args []value) value {
	return fr.i.prog.MethodSets.MethodSet(rV2T(args[0]).t).Len()
}

func ext۰reflect۰Value۰Index(fr *frame, args []value) value {
	i := args[1].(int)
	t := rV2T(args[0]).t.Underlying()
	switch v := rVcur(args[0]).(type) {
	case array:
		et := t.(*types.Array).Elem()
		if a := rVaddr(args[0]); a != nil {
			return makeReflectValueAddr(et, &(*a).(array)[i], rVflags(args[0]))
		}
		return makeReflectValue(et, v[i])
	case []value:
		return makeReflectValueAddr(t.(*types.Slice).Elem(), &v[i], rVflags(args[0]))
	default:
		panic(fmt.Sprintf("reflect.(Value).Index(%T)", v))
	}
}

func ext۰reflect۰Value۰Bool(fr *frame, args []value) value {
	return rVcur(args[0])
}

func ext۰reflect۰Value۰CanAddr(fr *frame, args []value) value {
	return rVaddr(args[0]) != nil
}

func ext۰reflect۰Value۰CanSet(fr *frame, args []value) value {
	return rVaddr(args[0]) != nil && rVflags(args[0])&1 == 0
}

func ext۰reflect۰Value۰CanInterface(fr *frame, args []value) value {
	return rVflags(args[0])&1 == 0
}

func ext۰reflect۰Value۰Addr(fr *frame, args []value) value {
	a := rVaddr(args[0])
	if a == nil {
		panic(targetPanic{iface{fr.i.runtimeErrorString, "reflect.Value.Addr of unaddressable value"}})
	}
	r := makeReflectValue(types.NewPointer(rV2T(args[0]).t), a).(structure)
	r[3] = rVflags(args[0])
	return r
}

func ext۰reflect۰Value۰Elem(fr *frame, args []value) value {
	switch x := rVcur(args[0]).(type) {
	case iface:
		if x.t == nil {
			return zero(fr.i.eng.reflectValueType)
		}
		return makeReflectValue(x.t, x.v)
	case *value:
		if x == nil {
			return zero(fr.i.eng.reflectValueType)
		}
		return makeReflectValueAddr(mustDeref(rV2T(args[0]).t), x, rVflags(args[0]))
	default:
		panic(fmt.Sprintf("reflect.(Value).Elem(%T)", x))
	}
}

func ext۰reflect۰Value۰Field(fr *frame, args []value) value {
	v := args[0]
	i := args[1].(int)
	st := rV2T(v).t.Underlying().(*types.Struct)
	f := st.Field(i)
	flags := rVflags(v)
	if !f.Exported() {
		flags |= 1
	}
	if a := rVaddr(v); a != nil {
		return makeReflectValueAddr(f.Type(), &(*a).(structure)[i], flags)
	}
	r := makeReflectValue(f.Type(), rV2V(v).(structure)[i]).(structure)
	r[3] = flags
	return r
}

func ext۰reflect۰Value۰Float(fr *frame, args []value) value {
	switch v := rVcur(args[0]).(type) {
	case float32:
		return float64(v)
	case float64:
		return float64(v)
	}
	panic("reflect.Value.Float")
}

func ext۰reflect۰Value۰Interface(fr *frame, args []value) value {
	return ext۰reflect۰valueInterface(fr, args)
}

func ext۰reflect۰Value۰IsNil(fr *frame, args []value) value {
	switch x := rVcur(args[0]).(type) {
	case *value:
		return x == nil
	case *channel:
		return x == nil
	case *omap:
		return x == nil
	case *closure:
		return x == nil
	case *ssa.Function:
		return x == nil
	case *ssa.Builtin:
		return x == nil
	case []value:
		return x == nil
	case iface:
		return x.t == nil
	default:
		panic(fmt.Sprintf("reflect.(Value).IsNil(%T)", x))
	}
}

func ext۰reflect۰Value۰IsValid(fr *frame, args []value) value {
	return rVvalid(args[0])
}

func ext۰reflect۰Value۰Set(fr *frame, args []value) value {
	fr.rVset(args[0], rVcur(args[1]))
	return nil
}

func ext۰reflect۰valueInterface(fr *frame, args []value) value {
	v := args[0]
	t := rV2T(v).t
	if _, ok := t.Underlying().(*types.Interface); ok {
		return rVcur(v) // already an interface value
	}
	return iface{t, rVcur(v)}
}

func ext۰reflect۰Value۰Pointer(fr *frame, args []value) value {
	panic(unsupported{"reflect.Value.Pointer"})
}

func ext۰reflect۰Value۰MapIndex(fr *frame, args []value) value {
	panic(unsupported{"reflect.Value.MapIndex"})
}

func ext۰reflect۰Value۰MapKeys(fr *frame, args []value) value {
	panic(unsupported{"reflect.Value.MapKeys"})
}

func ext۰reflect۰rtype۰Comparable(fr *frame, args []value) value {
	return types.Comparable(args[0].(rtype).t)
}

func ext۰reflect۰rtype۰Name(fr *frame, args []value) value {
	if n, ok := args[0].(rtype).t.(*types.Named); ok {
		return n.Obj().Name()
	}
	if b, ok := args[0].(rtype).t.(*types.Basic); ok {
		return b.Name()
	}
	return ""
}

func ext۰reflect۰error۰Error(fr *frame, args []value) value {
	return args[0]
}

// newMethod creates a new method of the specified name, package and receiver type.
func newMethod(pkg *ssa.Package, recvType types.Type, name string) *ssa.Function {
	// TODO(adonovan): fix: hack: currently the only part of Signature
	// that is needed is the "pointerness" of Recv.Type, and for
	// now, we'll set it to always be false since we're only
	// concerned with rtype.  Encapsulate this better.
	sig := types.NewSignature(types.NewVar(token.NoPos, nil, "recv", recvType), nil, nil, false)
	fn := pkg.Prog.NewFunction(name, sig, "fake reflect method")
	fn.Pkg = pkg
	return fn
}

func initReflect(e *Engine) {
	e.reflectPackage = &ssa.Package{
		Prog:    e.prog,
		Pkg:     reflectTypesPackage,
		Members: make(map[string]ssa.Member),
	}
	if r := e.prog.ImportedPackage("reflect"); r != nil {
		rV := r.Pkg.Scope().Lookup("Value").Type().(*types.Named)

		// delete bodies of the old methods
		mset := e.prog.MethodSets.MethodSet(rV)
		for j := 0; j < mset.Len(); j++ {
			e.prog.MethodValue(mset.At(j)).Blocks = nil
		}
		pset := e.prog.MethodSets.MethodSet(types.NewPointer(rV))
		for j := 0; j < pset.Len(); j++ {
			if f := e.prog.MethodValue(pset.At(j)); f != nil && f.Synthetic == "" {
				f.Blocks = nil
			}
		}

		tEface := types.NewInterface(nil, nil).Complete()
		rV.SetUnderlying(types.NewStruct([]*types.Var{
			types.NewField(token.NoPos, r.Pkg, "t", tEface, false), // a lie
			types.NewField(token.NoPos, r.Pkg, "v", tEface, false),
			types.NewField(token.NoPos, r.Pkg, "a", tEface, false),
			types.NewField(token.NoPos, r.Pkg, "f", tEface, false),
		}, nil))
		e.reflectValueType = rV
	}

	e.rtypeMethods = methodSet{}
	for _, name := range []string{"Bits", "Elem", "Field", "In", "Kind", "NumField", "NumIn", "NumMethod", "NumOut", "Out", "Size", "String", "Comparable", "Name"} {
		e.rtypeMethods[name] = newMethod(e.reflectPackage, rtypeType, name)
	}
	e.errorMethods = methodSet{
		"Error": newMethod(e.reflectPackage, errorType, "Error"),
	}
}
