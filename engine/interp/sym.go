package interp

// Symbolic values: integers/bools as SMT bit-vector terms, strings with
// symbolic bytes.  All-concrete operands never reach this file.

import (
	"fmt"
	"go/token"
	"go/types"

	"symgo/smt"
)

// symv is a symbolic scalar: an integer of Go basic kind k (Int..Uintptr) or a
// bool (k == types.Bool, term of Bool sort).
type symv struct {
	t *smt.Term
	k types.BasicKind
}

// sstr is a string at least one byte of which is symbolic.  Length is concrete.
// Elements are uint8 or symv{Uint8}.
type sstr struct {
	b []value
}

func kindWidth(k types.BasicKind) uint8 {
	switch k {
	case types.Int8, types.Uint8:
		return 8
	case types.Int16, types.Uint16:
		return 16
	case types.Int32, types.Uint32:
		return 32
	case types.Int, types.Uint, types.Int64, types.Uint64, types.Uintptr:
		return 64
	case types.Bool:
		return 0
	}
	panic(fmt.Sprintf("kindWidth: not an integer kind: %v", k))
}

func kindSigned(k types.BasicKind) bool {
	switch k {
	case types.Int, types.Int8, types.Int16, types.Int32, types.Int64:
		return true
	}
	return false
}

// intKind returns the basic kind and raw bits of a concrete integer/bool value.
func intKind(x value) (types.BasicKind, uint64, bool) {
	switch x := x.(type) {
	case bool:
		if x {
			return types.Bool, 1, true
		}
		return types.Bool, 0, true
	case int:
		return types.Int, uint64(x), true
	case int8:
		return types.Int8, uint64(uint8(x)), true
	case int16:
		return types.Int16, uint64(uint16(x)), true
	case int32:
		return types.Int32, uint64(uint32(x)), true
	case int64:
		return types.Int64, uint64(x), true
	case uint:
		return types.Uint, uint64(x), true
	case uint8:
		return types.Uint8, uint64(x), true
	case uint16:
		return types.Uint16, uint64(x), true
	case uint32:
		return types.Uint32, uint64(x), true
	case uint64:
		return types.Uint64, x, true
	case uintptr:
		return types.Uintptr, uint64(x), true
	}
	return 0, 0, false
}

// concreteOf builds the native value of kind k from raw bits.
func concreteOf(k types.BasicKind, v uint64) value {
	switch k {
	case types.Bool:
		return v != 0
	case types.Int:
		return int(v)
	case types.Int8:
		return int8(v)
	case types.Int16:
		return int16(v)
	case types.Int32:
		return int32(v)
	case types.Int64:
		return int64(v)
	case types.Uint:
		return uint(v)
	case types.Uint8:
		return uint8(v)
	case types.Uint16:
		return uint16(v)
	case types.Uint32:
		return uint32(v)
	case types.Uint64:
		return v
	case types.Uintptr:
		return uintptr(v)
	}
	panic(fmt.Sprintf("concreteOf: bad kind %v", k))
}

// mkSym wraps a term as a value, collapsing constants to native values.
func mkSym(k types.BasicKind, t *smt.Term) value {
	if t.IsConst() {
		return concreteOf(k, t.Val)
	}
	return symv{t, k}
}

func isSym(x value) bool {
	_, ok := x.(symv)
	return ok
}

// termOf returns the term for an integer/bool value (symbolic or concrete).
func termOf(c *smt.Ctx, x value) (*smt.Term, types.BasicKind) {
	if s, ok := x.(symv); ok {
		return s.t, s.k
	}
	k, v, ok := intKind(x)
	if !ok {
		panic(fmt.Sprintf("termOf: not an integer: %T", x))
	}
	if k == types.Bool {
		return c.Bool(v != 0), k
	}
	return c.Const(kindWidth(k), v), k
}

func ctxOf(xs ...value) *smt.Ctx {
	for _, x := range xs {
		switch x := x.(type) {
		case symv:
			return x.t.Ctx
		case sstr:
			for _, b := range x.b {
				if s, ok := b.(symv); ok {
					return s.t.Ctx
				}
			}
		}
	}
	panic("ctxOf: no symbolic operand")
}

// boolTerm returns the Bool term of a bool value.
func boolTerm(c *smt.Ctx, x value) *smt.Term {
	switch x := x.(type) {
	case bool:
		return c.Bool(x)
	case symv:
		if x.k != types.Bool {
			panic("boolTerm: not a bool")
		}
		return x.t
	}
	panic(fmt.Sprintf("boolTerm: %T", x))
}

func mkBool(t *smt.Term) value { return mkSym(types.Bool, t) }

// resize converts term t of kind from to width/signedness of kind to (Go
// integer conversion semantics: extension follows the source signedness).
func resize(c *smt.Ctx, t *smt.Term, from, to types.BasicKind) *smt.Term {
	fw, tw := kindWidth(from), kindWidth(to)
	switch {
	case fw == tw:
		return t
	case fw > tw:
		return c.Extract(t, tw-1, 0)
	case kindSigned(from):
		return c.SExt(t, tw)
	default:
		return c.ZExt(t, tw)
	}
}

// symBinop implements binary operators when at least one operand is a symv.
// Division and shifts are pre-checked by the caller (visitInstr) for their
// panics; here they are pure.
func symBinop(op token.Token, x, y value) value {
	c := ctxOf(x, y)
	tx, kx := termOf(c, x)
	ty, ky := termOf(c, y)
	if kx == types.Bool {
		switch op {
		case token.EQL:
			return mkBool(c.Eq(tx, ty))
		case token.NEQ:
			return mkBool(c.BNot(c.Eq(tx, ty)))
		}
		panic(fmt.Sprintf("symBinop: bad bool op %s", op))
	}
	signed := kindSigned(kx)
	switch op {
	case token.SHL, token.SHR:
		// shift count: unsigned (negative counts were excluded by the caller)
		w := kindWidth(kx)
		wy := kindWidth(ky)
		var amt *smt.Term
		switch {
		case wy == w:
			amt = ty
		case wy < w:
			amt = c.ZExt(ty, w)
		default:
			// saturate to w when the wide count is >= w, then truncate
			big := c.ULe(c.Const(wy, uint64(w)), ty)
			amt = c.Ite(big, c.Const(w, uint64(w)), c.Extract(ty, w-1, 0))
		}
		if op == token.SHL {
			return mkSym(kx, c.Shl(tx, amt))
		}
		if signed {
			return mkSym(kx, c.AShr(tx, amt))
		}
		return mkSym(kx, c.LShr(tx, amt))
	}
	if kindWidth(kx) != kindWidth(ky) {
		panic(fmt.Sprintf("symBinop: width mismatch %v %s %v", kx, op, ky))
	}
	switch op {
	case token.ADD:
		return mkSym(kx, c.Add(tx, ty))
	case token.SUB:
		return mkSym(kx, c.Sub(tx, ty))
	case token.MUL:
		return mkSym(kx, c.Mul(tx, ty))
	case token.QUO:
		if signed {
			return mkSym(kx, c.SDiv(tx, ty))
		}
		return mkSym(kx, c.UDiv(tx, ty))
	case token.REM:
		if signed {
			return mkSym(kx, c.SRem(tx, ty))
		}
		return mkSym(kx, c.URem(tx, ty))
	case token.AND:
		return mkSym(kx, c.And(tx, ty))
	case token.OR:
		return mkSym(kx, c.Or(tx, ty))
	case token.XOR:
		return mkSym(kx, c.Xor(tx, ty))
	case token.AND_NOT:
		return mkSym(kx, c.And(tx, c.Not(ty)))
	case token.EQL:
		return mkBool(c.Eq(tx, ty))
	case token.NEQ:
		return mkBool(c.BNot(c.Eq(tx, ty)))
	case token.LSS:
		if signed {
			return mkBool(c.SLt(tx, ty))
		}
		return mkBool(c.ULt(tx, ty))
	case token.LEQ:
		if signed {
			return mkBool(c.SLe(tx, ty))
		}
		return mkBool(c.ULe(tx, ty))
	case token.GTR:
		if signed {
			return mkBool(c.SLt(ty, tx))
		}
		return mkBool(c.ULt(ty, tx))
	case token.GEQ:
		if signed {
			return mkBool(c.SLe(ty, tx))
		}
		return mkBool(c.ULe(ty, tx))
	}
	panic(fmt.Sprintf("symBinop: unhandled op %s", op))
}

func symUnop(op token.Token, x symv) value {
	c := x.t.Ctx
	switch op {
	case token.SUB:
		return mkSym(x.k, c.Neg(x.t))
	case token.XOR:
		return mkSym(x.k, c.Not(x.t))
	case token.NOT:
		return mkBool(c.BNot(x.t))
	}
	panic(fmt.Sprintf("symUnop: unhandled op %s", op))
}

// symConv converts a symbolic integer to another basic type.
func symConv(t_dst types.Type, x symv) value {
	b, ok := t_dst.Underlying().(*types.Basic)
	if !ok {
		panic(unsupported{fmt.Sprintf("conversion of symbolic integer to %s", t_dst)})
	}
	k := b.Kind()
	if k == types.UnsafePointer {
		panic(unsupported{"symbolic integer to unsafe.Pointer"})
	}
	if b.Info()&types.IsInteger == 0 {
		panic(unsupported{fmt.Sprintf("conversion of symbolic integer to %s", t_dst)})
	}
	return mkSym(k, resize(x.t.Ctx, x.t, x.k, k))
}

// ---------------------------------------------------------------------------
// strings with symbolic bytes

func strBytes(x value) []value {
	switch x := x.(type) {
	case string:
		bs := make([]value, len(x))
		for i := 0; i < len(x); i++ {
			bs[i] = x[i]
		}
		return bs
	case sstr:
		return x.b
	}
	panic(fmt.Sprintf("strBytes: %T", x))
}

// mkStr builds a string value from bytes, native if all are concrete.
func mkStr(bs []value) value {
	for _, b := range bs {
		if _, ok := b.(symv); ok {
			cp := make([]value, len(bs))
			copy(cp, bs)
			return sstr{cp}
		}
	}
	raw := make([]byte, len(bs))
	for i, b := range bs {
		raw[i] = b.(uint8)
	}
	return string(raw)
}

func strLen(x value) int {
	switch x := x.(type) {
	case string:
		return len(x)
	case sstr:
		return len(x.b)
	}
	panic(fmt.Sprintf("strLen: %T", x))
}

func isStrV(x value) bool {
	switch x.(type) {
	case string, sstr:
		return true
	}
	return false
}

// bytesEqTerm returns the Bool term "a == b" for two byte sequences.
func bytesEqTerm(c *smt.Ctx, a, b []value) *smt.Term {
	if len(a) != len(b) {
		return c.False
	}
	r := c.True
	for i := range a {
		ta, _ := termOf(c, a[i])
		tb, _ := termOf(c, b[i])
		r = c.BAnd(r, c.Eq(ta, tb))
		if r.IsFalse() {
			return r
		}
	}
	return r
}

// bytesLtTerm returns the Bool term "a < b" (lexicographic).
func bytesLtTerm(c *smt.Ctx, a, b []value) *smt.Term {
	// lt(i) = i>=len(b) ? false : i>=len(a) ? true : a[i]<b[i] || (a[i]==b[i] && lt(i+1))
	n := len(a)
	if len(b) < n {
		n = len(b)
	}
	r := c.Bool(len(a) < len(b))
	for i := n - 1; i >= 0; i-- {
		ta, _ := termOf(c, a[i])
		tb, _ := termOf(c, b[i])
		r = c.BOr(c.ULt(ta, tb), c.BAnd(c.Eq(ta, tb), r))
	}
	return r
}

func symStrBinop(op token.Token, x, y value) value {
	a, b := strBytes(x), strBytes(y)
	switch op {
	case token.ADD:
		r := make([]value, 0, len(a)+len(b))
		r = append(r, a...)
		r = append(r, b...)
		return mkStr(r)
	}
	c := ctxOf(x, y)
	switch op {
	case token.EQL:
		return mkBool(bytesEqTerm(c, a, b))
	case token.NEQ:
		return mkBool(c.BNot(bytesEqTerm(c, a, b)))
	case token.LSS:
		return mkBool(bytesLtTerm(c, a, b))
	case token.GTR:
		return mkBool(bytesLtTerm(c, b, a))
	case token.LEQ:
		return mkBool(c.BNot(bytesLtTerm(c, b, a)))
	case token.GEQ:
		return mkBool(c.BNot(bytesLtTerm(c, a, b)))
	}
	panic(fmt.Sprintf("symStrBinop: unhandled %s", op))
}

// ---------------------------------------------------------------------------
// deep inspection helpers

// hasSym reports whether a (comparable) value contains a symbolic leaf.
func hasSym(x value) bool {
	switch x := x.(type) {
	case symv, sstr:
		return true
	case structure:
		for _, e := range x {
			if hasSym(e) {
				return true
			}
		}
	case array:
		for _, e := range x {
			if hasSym(e) {
				return true
			}
		}
	case iface:
		return hasSym(x.v)
	}
	return false
}

// equalsV is equals() lifted to symbolic leaves: returns bool or symv{Bool}.
func equalsV(t types.Type, x, y value) value {
	if !hasSym(x) && !hasSym(y) {
		return equals(t, x, y)
	}
	c := ctxOf2(x, y)
	return mkBool(eqTerm(c, t, x, y))
}

func ctxOf2(x, y value) *smt.Ctx {
	if c := findCtx(x); c != nil {
		return c
	}
	if c := findCtx(y); c != nil {
		return c
	}
	panic("ctxOf2: no symbolic leaf")
}

func findCtx(x value) *smt.Ctx {
	switch x := x.(type) {
	case symv:
		return x.t.Ctx
	case sstr:
		for _, b := range x.b {
			if s, ok := b.(symv); ok {
				return s.t.Ctx
			}
		}
	case structure:
		for _, e := range x {
			if c := findCtx(e); c != nil {
				return c
			}
		}
	case array:
		for _, e := range x {
			if c := findCtx(e); c != nil {
				return c
			}
		}
	case iface:
		return findCtx(x.v)
	}
	return nil
}

func eqTerm(c *smt.Ctx, t types.Type, x, y value) *smt.Term {
	switch x := x.(type) {
	case symv:
		ty, _ := termOf(c, y)
		return c.Eq(x.t, ty)
	case sstr:
		return bytesEqTerm(c, x.b, strBytes(y))
	case string:
		if ys, ok := y.(sstr); ok {
			return bytesEqTerm(c, strBytes(x), ys.b)
		}
	case structure:
		ys := y.(structure)
		tS := t.Underlying().(*types.Struct)
		r := c.True
		for i := range x {
			f := tS.Field(i)
			if f.Name() == "_" {
				continue
			}
			r = c.BAnd(r, eqTerm(c, f.Type(), x[i], ys[i]))
		}
		return r
	case array:
		ya := y.(array)
		tE := t.Underlying().(*types.Array).Elem()
		r := c.True
		for i := range x {
			r = c.BAnd(r, eqTerm(c, tE, x[i], ya[i]))
		}
		return r
	case iface:
		yi := y.(iface)
		if !sameType(x.t, yi.t) {
			return c.False
		}
		if x.t == nil {
			return c.True
		}
		return eqTerm(c, x.t, x.v, yi.v)
	}
	if _, ok := y.(symv); ok {
		tx, _ := termOf(c, x)
		return c.Eq(tx, y.(symv).t)
	}
	return c.Bool(equals(t, x, y))
}

// unsupported is panicked (as an engine abort, not a target panic) when the
// program needs something the engine cannot do; the path is inconclusive.
type unsupported struct{ what string }

func (u unsupported) String() string { return "unsupported: " + u.what }
