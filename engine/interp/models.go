package interp

// Environment models: stdlib functions that cannot run as SSA (unsafe, runtime
// hooks, assembly) or that are replaced by their documented semantics.  Each is
// part of the claim (DESIGN.md section 2.6).

import (
	"fmt"
	"go/token"
	"go/types"
	"strings"

	"golang.org/x/tools/go/ssa"

	"symgo/smt"
)

func init() {
	for k, v := range map[string]externalFn{
		// sync
		"(*sync.Mutex).Lock":         extMutexLock,
		"(*sync.Mutex).Unlock":       extMutexUnlock,
		"(*sync.Mutex).TryLock":      extMutexTryLock,
		"(*sync.RWMutex).Lock":       extRWLock,
		"(*sync.RWMutex).Unlock":     extRWUnlock,
		"(*sync.RWMutex).RLock":      extRWRLock,
		"(*sync.RWMutex).RUnlock":    extRWRUnlock,
		"(*sync.Once).Do":            extOnceDo,
		"(*sync.WaitGroup).Add":      extWGAdd,
		"(*sync.WaitGroup).Done":     extWGDone,
		"(*sync.WaitGroup).Wait":     extWGWait,
		"(*sync.Pool).Get":           extPoolGet,
		"(*sync.Pool).Put":           extPoolPut,
		"(*sync.Map).Load":           extSyncMapLoad,
		"(*sync.Map).Store":          extSyncMapStore,
		"(*sync.Map).LoadOrStore":    extSyncMapLoadOrStore,
		"(*sync.Map).LoadAndDelete":  extSyncMapLoadAndDelete,
		"(*sync.Map).Delete":         extSyncMapDelete,
		"(*sync.Map).Range":          extSyncMapRange,
		"(*sync.Map).Swap":           extSyncMapSwap,
		"(*sync.Map).CompareAndSwap": extUnsupported("sync.Map.CompareAndSwap"),
		// sync/atomic
		"sync/atomic.LoadInt32":             extAtomicLoad,
		"sync/atomic.LoadInt64":             extAtomicLoad,
		"sync/atomic.LoadUint32":            extAtomicLoad,
		"sync/atomic.LoadUint64":            extAtomicLoad,
		"sync/atomic.LoadUintptr":           extAtomicLoad,
		"sync/atomic.LoadPointer":           extAtomicLoad,
		"sync/atomic.StoreInt32":            extAtomicStore,
		"sync/atomic.StoreInt64":            extAtomicStore,
		"sync/atomic.StoreUint32":           extAtomicStore,
		"sync/atomic.StoreUint64":           extAtomicStore,
		"sync/atomic.StoreUintptr":          extAtomicStore,
		"sync/atomic.StorePointer":          extAtomicStore,
		"sync/atomic.AddInt32":              extAtomicAdd,
		"sync/atomic.AddInt64":              extAtomicAdd,
		"sync/atomic.AddUint32":             extAtomicAdd,
		"sync/atomic.AddUint64":             extAtomicAdd,
		"sync/atomic.AddUintptr":            extAtomicAdd,
		"sync/atomic.SwapInt32":             extAtomicSwap,
		"sync/atomic.SwapInt64":             extAtomicSwap,
		"sync/atomic.SwapUint32":            extAtomicSwap,
		"sync/atomic.SwapUint64":            extAtomicSwap,
		"sync/atomic.SwapPointer":           extAtomicSwap,
		"sync/atomic.CompareAndSwapInt32":   extAtomicCAS,
		"sync/atomic.CompareAndSwapInt64":   extAtomicCAS,
		"sync/atomic.CompareAndSwapUint32":  extAtomicCAS,
		"sync/atomic.CompareAndSwapUint64":  extAtomicCAS,
		"sync/atomic.CompareAndSwapUintptr": extAtomicCAS,
		"sync/atomic.CompareAndSwapPointer": extAtomicCAS,
		"(*sync/atomic.Value).Load":         extAtomicValueLoad,
		"(*sync/atomic.Value).Store":        extAtomicValueStore,
		// time
		"time.now":           extTimeNow,
		"time.runtimeNano":   func(fr *frame, args []value) value { return int64(1_000_000_000) },
		"time.Sleep":         extYieldNop,
		"time.AfterFunc":     extTimeAfterFunc,
		"(*time.Timer).Stop": func(fr *frame, args []value) value { return true },
		"time.NewTimer":      extUnsupported("time.NewTimer"),
		"time.After":         extTimeAfter,
		// log
		"log.Printf":  extNop,
		"log.Println": extNop,
		"log.Print":   extNop,
		"log.Fatal":   extLogFatal,
		"log.Fatalf":  extLogFatal,
		"log.Fatalln": extLogFatal,
		// fmt
		"fmt.Sprintf":  extFmtSprintf,
		"fmt.Errorf":   extFmtErrorf,
		"fmt.Sprint":   extFmtSprint,
		"fmt.Sprintln": extFmtSprint,
		"fmt.Println":  extNopTuple2,
		"fmt.Printf":   extNopTuple2,
		"fmt.Fprintf":  extNopTuple2,
		"fmt.Fprintln": extNopTuple2,
		// encoding/binary
		"encoding/binary.Write": extBinaryWrite,
		"encoding/binary.Read":  extBinaryRead,
		"encoding/binary.Size":  extBinarySize,
		// bytealg and friends
		"internal/bytealg.IndexByte":       extIndexByte,
		"internal/bytealg.IndexByteString": extIndexByte,
		"internal/bytealg.Count":           extCountByte,
		"internal/bytealg.CountString":     extCountByte,
		"internal/bytealg.Equal":           extBytesEqual,
		"internal/bytealg.Compare":         extBytesCompare,
		"internal/bytealg.MakeNoZero":      extMakeNoZero,
		"bytes.Equal":                      extBytesEqual,
		"bytes.IndexByte":                  extIndexByte,
		"bytes.Compare":                    extBytesCompare,
		"strings.IndexByte":                extIndexByte,
		"strings.Index":                    extStringsIndex,
		"strings.Contains":                 extStringsContains,
		"strings.ContainsAny":              extStringsContainsAny,
		"strings.IndexAny":                 extStringsIndexAny,
		"strings.Count":                    extStringsCount,
		"strings.HasPrefix":                extStringsHasPrefix,
		"strings.HasSuffix":                extStringsHasSuffix,
		"strings.Compare":                  extBytesCompare,
		"strings.Join":                     extStringsJoin,
		"(*strings.Builder).String":        extBuilderString,
		"(*strings.Builder).Len":           extBuilderLen,
		"(*strings.Builder).Cap":           extBuilderLen,
		"(*strings.Builder).Reset":         extBuilderReset,
		"(*strings.Builder).Grow":          extNop,
		"(*strings.Builder).Write":         extBuilderWrite,
		"(*strings.Builder).WriteString":   extBuilderWrite,
		"(*strings.Builder).WriteByte":     extBuilderWriteByte,
		"(*strings.Builder).WriteRune":     extBuilderWriteRune,
		"internal/abi.NoEscape":            func(fr *frame, args []value) value { return args[0] },
		"internal/abi.Escape":              func(fr *frame, args []value) value { return args[0] },
		"internal/race.Acquire":            extNop,
		"internal/race.Release":            extNop,
		"internal/race.ReleaseMerge":       extNop,
		"internal/race.Enable":             extNop,
		"internal/race.Disable":            extNop,
		"internal/race.Read":               extNop,
		"internal/race.Write":              extNop,
		"internal/race.ReadRange":          extNop,
		"internal/race.WriteRange":         extNop,
		"internal/race.Errors":             func(fr *frame, args []value) value { return 0 },
		"internal/reflectlite.TypeOf":      ext۰reflect۰TypeOf,
		"runtime.KeepAlive":                extNop,
		"runtime.SetFinalizer":             extNop,
		"runtime.Gosched":                  extYieldNop,
		"os.Exit":                          extOsExit,
		"errors.Is":                        extErrorsIs,
		"errors.As":                        extErrorsAs,
	} {
		externals[k] = v
	}
	delete(externals, "strings.Replace")
	delete(externals, "strings.ToLower")
	delete(externals, "strings.EqualFold")
	delete(externals, "fmt.Sprint")
	externals["fmt.Sprint"] = extFmtSprint
	externals["runtime.Gosched"] = extYieldNop
	externals["time.Sleep"] = extYieldNop
}

const (
	tokenADD = token.ADD
	tokenEQL = token.EQL
	tokenAND = token.AND
	tokenOR  = token.OR
)

func extNop(fr *frame, args []value) value { return nil }

func extNopTuple2(fr *frame, args []value) value {
	return tuple{0, iface{}}
}

func extUnsupported(what string) externalFn {
	return func(fr *frame, args []value) value { panic(unsupported{what}) }
}

func extYieldNop(fr *frame, args []value) value {
	if !fr.atomicCtx() {
		fr.i.ps.sched.park(&pendingOp{kind: opResume, wild: true})
	}
	return nil
}

func extLogFatal(fr *frame, args []value) value {
	panic(targetPanic{iface{fr.i.runtimeErrorString, "log.Fatal called (process exit)"}})
}

func extOsExit(fr *frame, args []value) value {
	panic(targetPanic{iface{fr.i.runtimeErrorString, fmt.Sprintf("os.Exit(%v) called", args[0])}})
}

// callerAtomic: models are invoked with fr = the external's own frame.
func (fr *frame) visible() bool { return !fr.atomicCtx() }

// --- sync.Mutex -----------------------------------------------------------------
// The lock word is the Mutex's first field (state int32): 0 free, 1 held.

func mutexCell(m value) *value {
	p := m.(*value)
	if p == nil {
		runtimePanic("invalid memory address or nil pointer dereference")
	}
	return &(*p).(structure)[0]
}

func extMutexLock(fr *frame, args []value) value {
	cell := mutexCell(args[0])
	op := &pendingOp{kind: opLock, lockCell: cell}
	fr.doOp(op)
	return nil
}

// yieldPoint is a scheduling point before a non-blocking visible operation on
// sync object obj.
func (fr *frame) yieldPoint(obj interface{}) {
	if fr.visible() {
		fr.i.ps.sched.park(&pendingOp{kind: opResume, obj: obj, fr: fr})
	}
}

func extMutexUnlock(fr *frame, args []value) value {
	cell := mutexCell(args[0])
	fr.yieldPoint(cell)
	if lockState(cell) == 0 {
		// fatal error in Go (not recoverable)
		fr.i.ps.violation("panic", "fatal error: sync: unlock of unlocked mutex", fr.i.ps.siteOf(fr), nil)
		fr.i.ps.abort("violation", "unlock of unlocked mutex")
	}
	*cell = int32(0)
	s := fr.i.ps.sched
	s.releaseHB(s.cur, cell)
	return nil
}

func extMutexTryLock(fr *frame, args []value) value {
	cell := mutexCell(args[0])
	fr.yieldPoint(cell)
	if lockState(cell) != 0 {
		return false
	}
	*cell = int32(1)
	s := fr.i.ps.sched
	s.acquireHB(s.cur, cell)
	return true
}

// --- sync.RWMutex: state kept in a side table keyed by the mutex cell ---------------

func (ps *pathState) rwOf(m value) (*rwState, *value) {
	p := m.(*value)
	if ps.rw == nil {
		ps.rw = map[*value]*rwState{}
	}
	st := ps.rw[p]
	if st == nil {
		st = &rwState{}
		ps.rw[p] = st
	}
	return st, p
}

func extRWLock(fr *frame, args []value) value {
	st, p := fr.i.ps.rwOf(args[0])
	fr.doOp(&pendingOp{kind: opWLock, rw: st, lockCell: p})
	return nil
}

func extRWUnlock(fr *frame, args []value) value {
	st, p := fr.i.ps.rwOf(args[0])
	fr.yieldPoint(p)
	st.writer = false
	s := fr.i.ps.sched
	s.releaseHB(s.cur, p)
	return nil
}

func extRWRLock(fr *frame, args []value) value {
	st, p := fr.i.ps.rwOf(args[0])
	op := &pendingOp{kind: opRLock, rw: st, lockCell: p}
	fr.doOp(op)
	return nil
}

func extRWRUnlock(fr *frame, args []value) value {
	st, p := fr.i.ps.rwOf(args[0])
	fr.yieldPoint(p)
	st.readers--
	s := fr.i.ps.sched
	s.releaseHB(s.cur, p)
	return nil
}

// --- sync.Once: done word = first field (atomic.Uint32 {_, v}) -> side table -------

func extOnceDo(fr *frame, args []value) value {
	ps := fr.i.ps
	p := args[0].(*value)
	if ps.once == nil {
		ps.once = map[*value]*value{}
	}
	cell := ps.once[p]
	if cell == nil {
		var v value = int32(0) // 0 not started, 1 running, 2 done
		cell = &v
		ps.once[p] = cell
	}
	op := &pendingOp{kind: opOnce, lockCell: cell}
	fr.doOp(op)
	s := ps.sched
	if asInt64(*cell) == 2 {
		s.acquireHB(s.cur, cell)
		return nil
	}
	*cell = int32(1)
	func() {
		defer func() {
			*cell = int32(2)
			s.releaseHB(s.cur, cell)
		}()
		call(fr.i, fr, fr.pos, args[1], nil)
	}()
	return nil
}

// --- sync.WaitGroup: counter in a side table ------------------------------------------

func (ps *pathState) wgCell(p *value) *value {
	if ps.wg == nil {
		ps.wg = map[*value]*value{}
	}
	c := ps.wg[p]
	if c == nil {
		var v value = int64(0)
		c = &v
		ps.wg[p] = c
	}
	return c
}

func extWGAdd(fr *frame, args []value) value {
	ps := fr.i.ps
	c := ps.wgCell(args[0].(*value))
	fr.yieldPoint(c)
	n := asInt64(*c) + asInt64(args[1])
	if n < 0 {
		panic(targetPanic{iface{fr.i.runtimeErrorString, "sync: negative WaitGroup counter"}})
	}
	*c = n
	ps.sched.releaseHB(ps.sched.cur, c)
	return nil
}

func extWGDone(fr *frame, args []value) value {
	return extWGAdd(fr, []value{args[0], int(-1)})
}

func extWGWait(fr *frame, args []value) value {
	ps := fr.i.ps
	c := ps.wgCell(args[0].(*value))
	fr.doOp(&pendingOp{kind: opWGWait, wgCell: c})
	return nil
}

// --- sync.Pool --------------------------------------------------------------------------

// A Pool holds the values Put into it; Get either hands back the most recently
// Put value or behaves as if the pool were empty (both are legal for sync.Pool,
// which may drop values at any time), so each Get with a non-empty pool is a
// choice point.  Put(x) happens-before the Get that returns x.
type poolItem struct {
	v    value
	cell *value // pseudo lock cell carrying the happens-before edge
}

func extPoolPut(fr *frame, args []value) value {
	p := args[0].(*value)
	fr.yieldPoint(p)
	ps := fr.i.ps
	if ps.pools == nil {
		ps.pools = map[*value][]poolItem{}
	}
	var cell value = int32(0)
	it := poolItem{v: args[1], cell: &cell}
	ps.sched.releaseHB(ps.sched.cur, it.cell)
	ps.pools[p] = append(ps.pools[p], it)
	return nil
}

func extPoolGet(fr *frame, args []value) value {
	p := args[0].(*value)
	fr.yieldPoint(p)
	ps := fr.i.ps
	if items := ps.pools[p]; len(items) > 0 && ps.choose(2) == 0 {
		it := items[len(items)-1]
		ps.pools[p] = items[:len(items)-1]
		ps.sched.acquireHB(ps.sched.cur, it.cell)
		return it.v
	}
	st := (*p).(structure)
	// New is the last field
	newFn := st[len(st)-1]
	switch f := newFn.(type) {
	case *ssa.Function:
		if f == nil {
			return iface{}
		}
	case nil:
		return iface{}
	}
	return call(fr.i, fr, fr.pos, newFn, nil)
}

// --- sync.Map: association list in a side table, keys may be symbolic ---------------------

func (ps *pathState) syncMap(p value) *omap {
	ptr := p.(*value)
	if ps.smaps == nil {
		ps.smaps = map[*value]*omap{}
	}
	m := ps.smaps[ptr]
	if m == nil {
		m = newOmap(types.NewInterfaceType(nil, nil))
		ps.smaps[ptr] = m
	}
	return m
}

func (fr *frame) syncMapOp(p value) *omap {
	fr.yieldPoint(p.(*value))
	ps := fr.i.ps
	s := ps.sched
	ptr := p.(*value)
	s.acquireHB(s.cur, ptr)
	s.releaseHB(s.cur, ptr)
	return ps.syncMap(p)
}

func extSyncMapLoad(fr *frame, args []value) value {
	m := fr.syncMapOp(args[0])
	v, ok := m.lookup(fr.i.ps, args[1])
	if !ok {
		return tuple{iface{}, false}
	}
	return tuple{v, true}
}

func extSyncMapStore(fr *frame, args []value) value {
	m := fr.syncMapOp(args[0])
	m.insert(fr.i.ps, args[1], args[2])
	return nil
}

func extSyncMapSwap(fr *frame, args []value) value {
	m := fr.syncMapOp(args[0])
	old, ok := m.lookup(fr.i.ps, args[1])
	m.insert(fr.i.ps, args[1], args[2])
	if !ok {
		return tuple{iface{}, false}
	}
	return tuple{old, true}
}

func extSyncMapLoadOrStore(fr *frame, args []value) value {
	m := fr.syncMapOp(args[0])
	if e := m.find(fr.i.ps, args[1]); e != nil {
		return tuple{e.val, true}
	}
	m.ents = append(m.ents, &mentry{key: args[1], val: args[2], live: true})
	m.n++
	return tuple{args[2], false}
}

func extSyncMapLoadAndDelete(fr *frame, args []value) value {
	m := fr.syncMapOp(args[0])
	if e := m.find(fr.i.ps, args[1]); e != nil {
		e.live = false
		m.n--
		return tuple{e.val, true}
	}
	return tuple{iface{}, false}
}

func extSyncMapDelete(fr *frame, args []value) value {
	m := fr.syncMapOp(args[0])
	m.delete(fr.i.ps, args[1])
	return nil
}

func extSyncMapRange(fr *frame, args []value) value {
	m := fr.syncMapOp(args[0])
	for _, e := range m.snapshot() {
		if !e.live {
			continue
		}
		r := call(fr.i, fr, fr.pos, args[1], []value{e.key, e.val})
		if !fr.truth(r) {
			break
		}
	}
	return nil
}

// --- sync/atomic ---------------------------------------------------------------------------

func (fr *frame) atomicHB(p *value) {
	s := fr.i.ps.sched
	s.acquireHB(s.cur, p)
	s.releaseHB(s.cur, p)
}

func extAtomicLoad(fr *frame, args []value) value {
	p := args[0].(*value)
	fr.atomicHB(p)
	return *p
}

func extAtomicStore(fr *frame, args []value) value {
	p := args[0].(*value)
	fr.atomicHB(p)
	*p = args[1]
	return nil
}

func extAtomicAdd(fr *frame, args []value) value {
	p := args[0].(*value)
	fr.atomicHB(p)
	*p = fr.binop(tokenADD, nil, *p, args[1])
	return *p
}

func extAtomicSwap(fr *frame, args []value) value {
	p := args[0].(*value)
	fr.atomicHB(p)
	old := *p
	*p = args[1]
	return old
}

func extAtomicCAS(fr *frame, args []value) value {
	p := args[0].(*value)
	fr.atomicHB(p)
	eq := equalsV(nil, *p, args[1])
	if fr.truth(eq) {
		*p = args[2]
		return true
	}
	return false
}

// atomic.Value: struct{ v any }
func extAtomicValueLoad(fr *frame, args []value) value {
	p := args[0].(*value)
	fr.atomicHB(p)
	return (*p).(structure)[0]
}

func extAtomicValueStore(fr *frame, args []value) value {
	p := args[0].(*value)
	fr.atomicHB(p)
	v := args[1].(iface)
	if v.t == nil {
		panic(targetPanic{iface{fr.i.runtimeErrorString, "sync/atomic: store of nil value into Value"}})
	}
	(*p).(structure)[0] = v
	return nil
}

// --- time -------------------------------------------------------------------------------------

func extTimeNow(fr *frame, args []value) value {
	// func now() (sec int64, nsec int32, mono int64)
	return tuple{int64(1_700_000_000), int32(0), int64(2_000_000_000)}
}

func extTimeAfterFunc(fr *frame, args []value) value {
	// timers never fire (DESIGN 2.3); return a fresh *Timer
	t := fr.fn.Signature.Results().At(0).Type()
	cell := zero(mustDeref(t))
	return &cell
}

func extTimeAfter(fr *frame, args []value) value {
	// a channel that never delivers
	t := fr.fn.Signature.Results().At(0).Type().Underlying().(*types.Chan)
	return fr.i.ps.sched.newChannel(t.Elem(), 1)
}

// --- fmt ----------------------------------------------------------------------------------------

// fmtArg renders one operand as bytes (possibly symbolic).
func (fr *frame) fmtArg(a value, verb byte) []value {
	it, ok := a.(iface)
	if !ok {
		return strBytes(fmt.Sprintf("<%T>", a))
	}
	if it.t == nil {
		return strBytes("<nil>")
	}
	if verb != 'd' && verb != 'x' && verb != 'T' {
		if m := fr.i.errorMethodOf(it.t); m != nil {
			return strBytes(call(fr.i, fr, fr.pos, m, []value{it.v}))
		}
		if m := fr.i.stringMethodOf(it.t); m != nil {
			return strBytes(call(fr.i, fr, fr.pos, m, []value{it.v}))
		}
	}
	if verb == 'T' {
		return strBytes(it.t.String())
	}
	switch v := it.v.(type) {
	case string, sstr:
		if verb == 'q' {
			r := []value{uint8('"')}
			r = append(r, strBytes(v)...)
			return append(r, uint8('"'))
		}
		return strBytes(v)
	case symv:
		fr.i.ps.opaqueFmt++
		return strBytes("<sym>")
	case []value:
		if st, ok := it.t.Underlying().(*types.Slice); ok {
			if b, ok := st.Elem().Underlying().(*types.Basic); ok && b.Kind() == types.Uint8 && verb == 's' {
				return v
			}
		}
		fr.i.ps.opaqueFmt++
		return strBytes("<slice>")
	case bool:
		return strBytes(fmt.Sprint(v))
	}
	if k, x, ok := intKind(it.v); ok {
		if verb == 'x' {
			return strBytes(fmt.Sprintf("%x", x))
		}
		return strBytes(fmtInt(k, x))
	}
	fr.i.ps.opaqueFmt++
	return strBytes(fmt.Sprintf("<%s>", it.t))
}

func (i *interpreter) stringMethodOf(t types.Type) *ssa.Function {
	ms := i.prog.MethodSets.MethodSet(t)
	sel := ms.Lookup(nil, "String")
	if sel == nil {
		return nil
	}
	sig, ok := sel.Type().(*types.Signature)
	if !ok || sig.Params().Len() != 0 || sig.Results().Len() != 1 {
		return nil
	}
	if b, ok := sig.Results().At(0).Type().Underlying().(*types.Basic); !ok || b.Kind() != types.String {
		return nil
	}
	return i.prog.MethodValue(sel)
}

func (fr *frame) sprintf(format value, args []value) value {
	f, ok := format.(string)
	if !ok {
		panic(unsupported{"fmt with symbolic format string"})
	}
	var out []value
	ai := 0
	for i := 0; i < len(f); i++ {
		c := f[i]
		if c != '%' {
			out = append(out, c)
			continue
		}
		i++
		if i >= len(f) {
			break
		}
		// skip flags/width
		for i < len(f) && strings.IndexByte("+-# 0123456789.", f[i]) >= 0 {
			i++
		}
		if i >= len(f) {
			break
		}
		verb := f[i]
		if verb == '%' {
			out = append(out, uint8('%'))
			continue
		}
		if ai < len(args) {
			out = append(out, fr.fmtArg(args[ai], verb)...)
			ai++
		} else {
			out = append(out, strBytes("%!"+string(verb)+"(MISSING)")...)
		}
	}
	return mkStr(out)
}

func extFmtSprintf(fr *frame, args []value) value {
	return fr.sprintf(args[0], args[1].([]value))
}

func extFmtSprint(fr *frame, args []value) value {
	var out []value
	for i, a := range args[0].([]value) {
		if i > 0 {
			out = append(out, uint8(' '))
		}
		out = append(out, fr.fmtArg(a, 'v')...)
	}
	return mkStr(out)
}

func extFmtErrorf(fr *frame, args []value) value {
	s := fr.sprintf(args[0], args[1].([]value))
	return fr.i.newErrorString(s)
}

// newErrorString builds an *errors.errorString holding s.
func (i *interpreter) newErrorString(s value) value {
	t := i.eng.errorStringType
	var cell value = structure{s}
	return iface{t: types.NewPointer(t), v: &cell}
}

func extErrorsIs(fr *frame, args []value) value {
	// sufficient for sentinel comparisons: identity, then Unwrap chain
	err := args[0].(iface)
	target := args[1].(iface)
	for depth := 0; depth < 8 && err.t != nil; depth++ {
		if types.Comparable(err.t) && sameType(err.t, target.t) {
			if fr.truth(equalsV(err.t, err.v, target.v)) {
				return true
			}
		}
		ms := fr.i.prog.MethodSets.MethodSet(err.t)
		sel := ms.Lookup(nil, "Unwrap")
		if sel == nil {
			return false
		}
		r := call(fr.i, fr, fr.pos, fr.i.prog.MethodValue(sel), []value{err.v})
		next, ok := r.(iface)
		if !ok {
			return false
		}
		err = next
	}
	return false
}

// errors.As(err, target): target is a non-nil pointer to an interface type or
// to a type implementing error; walks the Unwrap chain.
func extErrorsAs(fr *frame, args []value) value {
	err := args[0].(iface)
	target := args[1].(iface)
	pt, ok := target.t.(*types.Pointer)
	ptr, ok2 := target.v.(*value)
	if !ok || !ok2 || ptr == nil {
		panic(targetPanic{iface{t: types.Typ[types.String], v: "errors: target must be a non-nil pointer"}})
	}
	elem := pt.Elem()
	for depth := 0; depth < 8 && err.t != nil; depth++ {
		if it, isIface := elem.Underlying().(*types.Interface); isIface {
			if types.Implements(err.t, it) {
				*ptr = err
				return true
			}
		} else if sameType(err.t, elem) {
			*ptr = err.v
			return true
		}
		ms := fr.i.prog.MethodSets.MethodSet(err.t)
		sel := ms.Lookup(nil, "Unwrap")
		if sel == nil {
			return false
		}
		r := call(fr.i, fr, fr.pos, fr.i.prog.MethodValue(sel), []value{err.v})
		next, ok := r.(iface)
		if !ok {
			return false
		}
		err = next
	}
	return false
}

// --- encoding/binary ----------------------------------------------------------------------------

func isLittle(order value) bool {
	it := order.(iface)
	return strings.Contains(it.t.String(), "littleEndian")
}

// encodeFixed appends the encoding of v (type t) to out; ok=false if t is not
// of fixed size.
func encodeFixed(c **smt.Ctx, t types.Type, v value, little bool, out []value) ([]value, bool) {
	switch ut := t.Underlying().(type) {
	case *types.Basic:
		k := ut.Kind()
		switch k {
		case types.Bool:
			if s, ok := v.(symv); ok {
				cc := s.t.Ctx
				return append(out, mkSym(types.Uint8, cc.Ite(s.t, cc.Const(8, 1), cc.Const(8, 0)))), true
			}
			if v.(bool) {
				return append(out, uint8(1)), true
			}
			return append(out, uint8(0)), true
		case types.Int8, types.Uint8, types.Int16, types.Uint16, types.Int32, types.Uint32, types.Int64, types.Uint64:
			n := int(kindWidth(k) / 8)
			bs := make([]value, n)
			if s, ok := v.(symv); ok {
				cc := s.t.Ctx
				for i := 0; i < n; i++ {
					bs[i] = mkSym(types.Uint8, cc.Extract(s.t, uint8(8*i+7), uint8(8*i)))
				}
			} else {
				_, x, _ := intKind(v)
				for i := 0; i < n; i++ {
					bs[i] = uint8(x >> (8 * uint(i)))
				}
			}
			if !little {
				for i, j := 0, n-1; i < j; i, j = i+1, j-1 {
					bs[i], bs[j] = bs[j], bs[i]
				}
			}
			return append(out, bs...), true
		}
		return out, false
	case *types.Array:
		a := v.(array)
		ok := true
		for _, e := range a {
			out, ok = encodeFixed(c, ut.Elem(), e, little, out)
			if !ok {
				return out, false
			}
		}
		return out, true
	case *types.Slice:
		sl := v.([]value)
		ok := true
		for _, e := range sl {
			out, ok = encodeFixed(c, ut.Elem(), e, little, out)
			if !ok {
				return out, false
			}
		}
		return out, true
	case *types.Struct:
		st := v.(structure)
		ok := true
		for i := range st {
			out, ok = encodeFixed(c, ut.Field(i).Type(), st[i], little, out)
			if !ok {
				return out, false
			}
		}
		return out, true
	}
	return out, false
}

// fixedSize returns the encoded size of a value of type t (slices need v), or -1.
func fixedSize(t types.Type, v value) int {
	switch ut := t.Underlying().(type) {
	case *types.Basic:
		switch ut.Kind() {
		case types.Bool, types.Int8, types.Uint8:
			return 1
		case types.Int16, types.Uint16:
			return 2
		case types.Int32, types.Uint32, types.Float32:
			return 4
		case types.Int64, types.Uint64, types.Float64:
			return 8
		}
		return -1
	case *types.Array:
		e := fixedSize(ut.Elem(), nil)
		if e < 0 {
			return -1
		}
		return e * int(ut.Len())
	case *types.Slice:
		e := fixedSize(ut.Elem(), nil)
		if e < 0 || v == nil {
			if sl, ok := v.([]value); ok && e >= 0 {
				return e * len(sl)
			}
			return -1
		}
		return e * len(v.([]value))
	case *types.Struct:
		n := 0
		for i := 0; i < ut.NumFields(); i++ {
			e := fixedSize(ut.Field(i).Type(), nil)
			if e < 0 {
				return -1
			}
			n += e
		}
		return n
	}
	return -1
}

func (fr *frame) callMethod(recv iface, name string, args ...value) value {
	ms := fr.i.prog.MethodSets.MethodSet(recv.t)
	sel := ms.Lookup(nil, name)
	if sel == nil {
		panic(fmt.Sprintf("callMethod: %s has no method %s", recv.t, name))
	}
	fn := fr.i.prog.MethodValue(sel)
	return call(fr.i, fr, fr.pos, fn, append([]value{recv.v}, args...))
}

func extBinaryWrite(fr *frame, args []value) value {
	// func Write(w io.Writer, order ByteOrder, data any) error
	w := args[0].(iface)
	data := args[2].(iface)
	t, v := data.t, data.v
	if data.t == nil {
		return fr.i.newErrorString("binary.Write: some values are not fixed-sized in type <nil>")
	}
	if p, ok := t.Underlying().(*types.Pointer); ok {
		ptr := v.(*value)
		if ptr == nil {
			runtimePanic("invalid memory address or nil pointer dereference")
		}
		t = p.Elem()
		v = load(t, ptr)
	}
	bs, ok := encodeFixed(nil, t, v, isLittle(args[1]), nil)
	if !ok {
		return fr.i.newErrorString("binary.Write: some values are not fixed-sized in type " + data.t.String())
	}
	if bs == nil {
		bs = []value{}
	}
	fr.i.ps.allocConst(fr, int64(len(bs)))
	r := fr.callMethod(w, "Write", bs).(tuple)
	return r[1]
}

// decodeFixed reads a value of type t from bs.
func decodeFixed(t types.Type, cur value, bs []value, little bool) (value, []value) {
	switch ut := t.Underlying().(type) {
	case *types.Basic:
		k := ut.Kind()
		if k == types.Bool {
			b := bs[0]
			if s, ok := b.(symv); ok {
				c := s.t.Ctx
				return mkBool(c.BNot(c.Eq(s.t, c.Const(8, 0)))), bs[1:]
			}
			return b.(uint8) != 0, bs[1:]
		}
		n := int(kindWidth(k) / 8)
		chunk := bs[:n]
		sym := false
		for _, b := range chunk {
			if isSym(b) {
				sym = true
			}
		}
		if !sym {
			var x uint64
			for i := 0; i < n; i++ {
				idx := i
				if !little {
					idx = n - 1 - i
				}
				x |= uint64(chunk[idx].(uint8)) << (8 * uint(i))
			}
			return concreteOf(k, x), bs[n:]
		}
		c := ctxOf(chunk...)
		var term *smt.Term
		for i := 0; i < n; i++ {
			idx := i
			if !little {
				idx = n - 1 - i
			}
			bt, _ := termOf(c, chunk[idx])
			if term == nil {
				term = bt
			} else {
				term = c.Concat(bt, term)
			}
		}
		return mkSym(k, term), bs[n:]
	case *types.Array:
		a := make(array, ut.Len())
		for i := range a {
			a[i], bs = decodeFixed(ut.Elem(), nil, bs, little)
		}
		return a, bs
	case *types.Slice:
		sl := cur.([]value)
		for i := range sl {
			sl[i], bs = decodeFixed(ut.Elem(), nil, bs, little)
		}
		return sl, bs
	case *types.Struct:
		st := make(structure, ut.NumFields())
		for i := range st {
			st[i], bs = decodeFixed(ut.Field(i).Type(), nil, bs, little)
		}
		return st, bs
	}
	panic("decodeFixed: not fixed size")
}

func extBinaryRead(fr *frame, args []value) value {
	// func Read(r io.Reader, order ByteOrder, data any) error
	data := args[2].(iface)
	if data.t == nil {
		return fr.i.newErrorString("binary.Read: invalid type <nil>")
	}
	var t types.Type
	var cur value
	var ptr *value
	switch ut := data.t.Underlying().(type) {
	case *types.Pointer:
		ptr = data.v.(*value)
		t = ut.Elem()
		cur = load(t, ptr)
	case *types.Slice:
		t = data.t
		cur = data.v
	default:
		return fr.i.newErrorString("binary.Read: invalid type " + data.t.String())
	}
	n := fixedSize(t, cur)
	if n < 0 {
		return fr.i.newErrorString("binary.Read: invalid type " + data.t.String())
	}
	bs := make([]value, n)
	for i := range bs {
		bs[i] = uint8(0)
	}
	fr.i.ps.allocConst(fr, int64(n))
	readFull := fr.i.eng.ioReadFull
	r := call(fr.i, fr, fr.pos, readFull, []value{args[0], bs}).(tuple)
	if err := r[1].(iface); err.t != nil {
		return err
	}
	nv, _ := decodeFixed(t, cur, bs, isLittle(args[1]))
	if ptr != nil {
		if _, isSlice := t.Underlying().(*types.Slice); !isSlice {
			fr.i.ps.onWrite(fr, ptr)
			store(t, ptr, nv)
		}
	}
	return iface{}
}

func extBinarySize(fr *frame, args []value) value {
	data := args[0].(iface)
	if data.t == nil {
		return -1
	}
	t, v := data.t, data.v
	if p, ok := t.Underlying().(*types.Pointer); ok {
		t = p.Elem()
		if ptr := v.(*value); ptr != nil {
			v = load(t, ptr)
		} else {
			v = nil
		}
	}
	return fixedSize(t, v)
}

// --- byte searching ---------------------------------------------------------------------------------

func extIndexByte(fr *frame, args []value) value {
	bs := seqBytes(args[0])
	c := args[1]
	for i, b := range bs {
		if fr.truth(fr.binop(tokenEQL, types.Typ[types.Uint8], b, c)) {
			return i
		}
	}
	return -1
}

func extCountByte(fr *frame, args []value) value {
	bs := seqBytes(args[0])
	c := args[1]
	n := 0
	for _, b := range bs {
		if fr.truth(fr.binop(tokenEQL, types.Typ[types.Uint8], b, c)) {
			n++
		}
	}
	return n
}

func extBytesEqual(fr *frame, args []value) value {
	a, b := seqBytes(args[0]), seqBytes(args[1])
	if len(a) != len(b) {
		return false
	}
	for i := range a {
		if isSym(a[i]) || isSym(b[i]) {
			return mkBool(bytesEqTerm(fr.i.ps.ctx, a, b))
		}
	}
	for i := range a {
		if a[i] != b[i] {
			return false
		}
	}
	return true
}

func extBytesCompare(fr *frame, args []value) value {
	a, b := seqBytes(args[0]), seqBytes(args[1])
	c := fr.i.ps.ctx
	if fr.truth(mkBool(bytesEqTerm(c, a, b))) {
		return 0
	}
	if fr.truth(mkBool(bytesLtTerm(c, a, b))) {
		return -1
	}
	return 1
}

func extMakeNoZero(fr *frame, args []value) value {
	n := int(fr.concInt(args[0], "MakeNoZero"))
	bs := make([]value, n)
	for i := range bs {
		bs[i] = uint8(0)
	}
	fr.i.ps.allocConst(fr, int64(n))
	return bs
}

func (fr *frame) matchAt(s, sub []value, i int) value {
	return mkBool(bytesEqTerm(fr.i.ps.ctx, s[i:i+len(sub)], sub))
}

func anySym(bs []value) bool {
	for _, b := range bs {
		if isSym(b) {
			return true
		}
	}
	return false
}

func (fr *frame) indexOf(s, sub []value) int {
	if len(sub) == 0 {
		return 0
	}
	for i := 0; i+len(sub) <= len(s); i++ {
		if fr.truth(fr.matchAt(s, sub, i)) {
			return i
		}
	}
	return -1
}

func extStringsIndex(fr *frame, args []value) value {
	return fr.indexOf(strBytes(args[0]), strBytes(args[1]))
}

func extStringsContains(fr *frame, args []value) value {
	s, sub := strBytes(args[0]), strBytes(args[1])
	if len(sub) == 0 {
		return true
	}
	c := fr.i.ps.ctx
	r := c.False
	for i := 0; i+len(sub) <= len(s); i++ {
		r = c.BOr(r, bytesEqTerm(c, s[i:i+len(sub)], sub))
	}
	return mkBool(r)
}

func requireASCII(chars value) []value {
	cs, ok := chars.(string)
	if !ok {
		panic(unsupported{"symbolic character set"})
	}
	for i := 0; i < len(cs); i++ {
		if cs[i] >= 0x80 {
			panic(unsupported{"non-ASCII character set in strings.*Any"})
		}
	}
	return strBytes(cs)
}

func extStringsContainsAny(fr *frame, args []value) value {
	s := strBytes(args[0])
	cs := requireASCII(args[1])
	c := fr.i.ps.ctx
	r := c.False
	for _, b := range s {
		bt, _ := termOf(c, b)
		for _, ch := range cs {
			r = c.BOr(r, c.Eq(bt, c.Const(8, uint64(ch.(uint8)))))
		}
	}
	return mkBool(r)
}

func extStringsIndexAny(fr *frame, args []value) value {
	s := strBytes(args[0])
	cs := requireASCII(args[1])
	c := fr.i.ps.ctx
	for i, b := range s {
		bt, _ := termOf(c, b)
		r := c.False
		for _, ch := range cs {
			r = c.BOr(r, c.Eq(bt, c.Const(8, uint64(ch.(uint8)))))
		}
		if fr.i.ps.branch(r) {
			return i
		}
	}
	return -1
}

func extStringsCount(fr *frame, args []value) value {
	s, sub := strBytes(args[0]), strBytes(args[1])
	if len(sub) == 0 {
		if anySym(s) {
			panic(unsupported{"strings.Count(symbolic, \"\")"})
		}
		return strings.Count(args[0].(string), "")
	}
	n := 0
	for i := 0; i+len(sub) <= len(s); {
		if fr.truth(fr.matchAt(s, sub, i)) {
			n++
			i += len(sub)
		} else {
			i++
		}
	}
	return n
}

func extStringsHasPrefix(fr *frame, args []value) value {
	s, p := strBytes(args[0]), strBytes(args[1])
	if len(p) > len(s) {
		return false
	}
	return mkBool(bytesEqTerm(fr.i.ps.ctx, s[:len(p)], p))
}

func extStringsHasSuffix(fr *frame, args []value) value {
	s, p := strBytes(args[0]), strBytes(args[1])
	if len(p) > len(s) {
		return false
	}
	return mkBool(bytesEqTerm(fr.i.ps.ctx, s[len(s)-len(p):], p))
}

func extStringsJoin(fr *frame, args []value) value {
	elems := args[0].([]value)
	sep := strBytes(args[1])
	var out []value
	for i, e := range elems {
		if i > 0 {
			out = append(out, sep...)
		}
		out = append(out, strBytes(e)...)
	}
	fr.i.ps.allocConst(fr, int64(len(out)))
	return mkStr(out)
}

// strings.Builder: struct{ addr *Builder; buf []byte }
func builderBuf(b value) *value {
	p := b.(*value)
	return &(*p).(structure)[1]
}

func extBuilderString(fr *frame, args []value) value {
	buf, _ := (*builderBuf(args[0])).([]value)
	return mkStr(buf)
}

func extBuilderLen(fr *frame, args []value) value {
	buf, _ := (*builderBuf(args[0])).([]value)
	return len(buf)
}

func extBuilderReset(fr *frame, args []value) value {
	*builderBuf(args[0]) = []value(nil)
	return nil
}

func extBuilderWrite(fr *frame, args []value) value {
	cell := builderBuf(args[0])
	buf, _ := (*cell).([]value)
	add := seqBytes(args[1])
	fr.i.ps.allocConst(fr, int64(len(add)))
	*cell = append(buf, add...)
	return tuple{len(add), iface{}}
}

func extBuilderWriteByte(fr *frame, args []value) value {
	cell := builderBuf(args[0])
	buf, _ := (*cell).([]value)
	*cell = append(buf, args[1])
	return iface{}
}

func extBuilderWriteRune(fr *frame, args []value) value {
	cell := builderBuf(args[0])
	buf, _ := (*cell).([]value)
	r, ok := args[1].(int32)
	if !ok {
		panic(unsupported{"WriteRune of symbolic rune"})
	}
	s := string(r)
	*cell = append(buf, strBytes(s)...)
	return tuple{len(s), iface{}}
}
