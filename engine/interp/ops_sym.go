package interp

// Frame-level operator wrappers: symbolic operands, run-time panic VCs,
// scheduler-visible operations, allocation accounting.

import (
	"fmt"
	"go/token"
	"go/types"

	"golang.org/x/tools/go/ssa"

	"symgo/smt"
)

func (fr *frame) unop(instr *ssa.UnOp, x value) value {
	switch instr.Op {
	case token.ARROW:
		return fr.chanRecv(x.(*channel), instr.X.Type().Underlying().(*types.Chan).Elem(), instr.CommaOk)
	case token.MUL:
		p := x.(*value)
		if p == nil {
			runtimePanic("invalid memory address or nil pointer dereference")
		}
		fr.i.ps.onRead(fr, p)
		return load(mustDeref(instr.X.Type()), p)
	}
	if s, ok := x.(symv); ok {
		return symUnop(instr.Op, s)
	}
	return unop(instr, x)
}

func (fr *frame) binop(op token.Token, t types.Type, x, y value) value {
	sx, sy := isSym(x), isSym(y)
	if sx || sy {
		ps := fr.i.ps
		c := ps.ctx
		switch op {
		case token.QUO, token.REM:
			ty, _ := termOf(c, y)
			if ps.branch(c.Eq(ty, c.Const(ty.W, 0))) {
				runtimePanic("integer divide by zero")
			}
		case token.SHL, token.SHR:
			if s, ok := y.(symv); ok && kindSigned(s.k) {
				if ps.branch(c.SLt(s.t, c.Const(s.t.W, 0))) {
					runtimePanic("negative shift amount")
				}
			} else if !ok {
				if _, neg := asUnsignedOK(y); neg {
					runtimePanic("negative shift amount")
				}
			}
		}
		return symBinop(op, x, y)
	}
	if _, ok := x.(sstr); ok {
		return symStrBinop(op, x, y)
	}
	if _, ok := y.(sstr); ok {
		return symStrBinop(op, x, y)
	}
	switch op {
	case token.EQL:
		if hasSym(x) || hasSym(y) {
			return equalsV(t, x, y)
		}
	case token.NEQ:
		if hasSym(x) || hasSym(y) {
			e := equalsV(t, x, y)
			if b, ok := e.(bool); ok {
				return !b
			}
			return symUnop(token.NOT, e.(symv))
		}
	case token.QUO, token.REM:
		if k, v, ok := intKind(y); ok && k != types.Bool && v == 0 {
			runtimePanic("integer divide by zero")
		}
	}
	return binop(op, t, x, y)
}

func asUnsignedOK(y value) (value, bool) {
	switch v := y.(type) {
	case int:
		return y, v < 0
	case int8:
		return y, v < 0
	case int16:
		return y, v < 0
	case int32:
		return y, v < 0
	case int64:
		return y, v < 0
	}
	return y, false
}

func (fr *frame) conv(t_dst, t_src types.Type, x value) value {
	if s, ok := x.(symv); ok {
		return symConv(t_dst, s)
	}
	// string <-> []byte conversions allocate
	if fr.i.ps.allocOpen {
		switch xv := x.(type) {
		case string:
			if _, ok := t_dst.Underlying().(*types.Slice); ok {
				fr.i.ps.allocConst(fr, int64(len(xv)))
			}
		case []value:
			if b, ok := t_dst.Underlying().(*types.Basic); ok && b.Kind() == types.String {
				fr.i.ps.allocConst(fr, int64(len(xv)))
			}
		}
	}
	return conv(t_dst, t_src, x)
}

func (fr *frame) lookup(instr *ssa.Lookup, x, idx value) value {
	switch x := x.(type) {
	case *omap:
		if x != nil {
			fr.i.ps.onRead(fr, x.cell())
		}
		v, ok := x.lookup(fr.i.ps, idx)
		if !ok {
			v = zero(instr.X.Type().Underlying().(*types.Map).Elem())
		}
		if instr.CommaOk {
			v = tuple{v, ok}
		}
		return v
	}
	panic(fmt.Sprintf("unexpected x type in Lookup: %T", x))
}

func (fr *frame) builtinAppend(fn *ssa.Builtin, args []value) value {
	if len(args) == 1 {
		return args[0]
	}
	arg0 := args[0].([]value)
	var add []value
	if isStrV(args[1]) {
		add = strBytes(args[1])
	} else {
		add = args[1].([]value)
	}
	if len(arg0)+len(add) > cap(arg0) {
		// growth: account for the new backing array
		esz := int64(8)
		if sl, ok := fn.Type().(*types.Signature); ok && sl.Params().Len() > 0 {
			if st, ok := sl.Params().At(0).Type().Underlying().(*types.Slice); ok {
				esz = fr.i.sizes.Sizeof(st.Elem())
			}
		}
		fr.i.ps.allocConst(fr, int64(len(arg0)+len(add))*esz)
	}
	return append(arg0, add...)
}

// --- allocation accounting ------------------------------------------------------

func (ps *pathState) allocConst(fr *frame, n int64) {
	if !ps.allocOpen || n <= 0 {
		return
	}
	ps.allocTerm(fr, ps.ctx.Const(64, uint64(n)))
}

func (ps *pathState) allocTerm(fr *frame, n *smt.Term) {
	if !ps.allocOpen {
		return
	}
	c := ps.ctx
	// saturating add is unnecessary: single requests are capped by makeslice
	ps.allocTotal = c.Add(ps.allocTotal, n)
	if ps.allocLimit != nil {
		ps.assert(c.ULe(ps.allocTotal, ps.allocLimit), "alloc", ps.allocLabel, ps.siteOf(fr))
	}
}

// --- sites ------------------------------------------------------------------------

// siteOf names the innermost repository function on the stack of fr.
func (ps *pathState) siteOf(fr *frame) string {
	for f := fr; f != nil; f = f.caller {
		if !f.ext && f.fn.Blocks != nil && ps.eng.isRepoFn(f.fn) && !ps.eng.isHarnessFn(f.fn) {
			return fmt.Sprintf("%s (%s)", f.fn.String(), shortPos(ps.eng.prog.Fset, f.pos))
		}
	}
	for f := fr; f != nil; f = f.caller {
		if !f.ext && f.fn.Blocks != nil && ps.eng.isRepoFn(f.fn) {
			return fmt.Sprintf("%s (%s)", f.fn.String(), shortPos(ps.eng.prog.Fset, f.pos))
		}
	}
	if fr != nil {
		return fr.fn.String()
	}
	return "?"
}

func (ps *pathState) notePanicSite(fr *frame) {
	if ps.panicSite == "" {
		ps.panicSite = ps.siteOf(fr)
		ps.panicStack = stackOf(ps, fr)
	}
}

func (ps *pathState) lastSite() string {
	return ps.panicSite
}

func stackOf(ps *pathState, fr *frame) string {
	s := ""
	n := 0
	for f := fr; f != nil && n < 12; f = f.caller {
		s += fmt.Sprintf("%s (%s); ", f.fn.String(), shortPos(ps.eng.prog.Fset, f.pos))
		n++
	}
	return s
}
