package interp

// Engine: program loading, worker pool, work list, result aggregation.

import (
	"fmt"
	"go/token"
	"go/types"
	"os"
	"sort"
	"strings"
	"sync"
	"time"

	"golang.org/x/tools/go/packages"
	"golang.org/x/tools/go/ssa"
	"golang.org/x/tools/go/ssa/ssautil"

	"symgo/smt"
)

type Config struct {
	RepoDir          string
	Module           string            // module path of the repository
	Overlay          map[string][]byte // virtual files injected into RepoDir
	Patterns         []string          // packages to load
	Workers          int
	ConcretizeCap    int
	PreemptionBound  int // -1 = unbounded
	MaxSteps         int64
	MaxConcreteAlloc int64
	MaxPaths         int
	RaceDetect       bool
	QueryTimeout     time.Duration
	Deadline         time.Time
	Verbose          bool
	Solver           string
	Seed             int64
	KeepSamples      int
	SleepSets        bool
	// DelayBound >= 0 switches the scheduler to delay-bounded exploration: the
	// alternatives at every scheduling point are ordered (GoOrder: the way a
	// single-P Go runtime would order them), choosing the k-th alternative costs
	// k delays and only schedules of total cost <= DelayBound are explored.
	DelayBound       int
	// ClaimPrefixes: when non-empty, assertions whose label starts with a property
	// tag ("Cnn:") that is not listed are skipped (see pathState.assert)
	ClaimPrefixes    []string
	GoOrder          bool
	Trace            bool
}

var initWhitelist = map[string]bool{
	"io": true, "bytes": true, "bufio": true, "encoding/binary": true, "unicode/utf8": true,
	"path": true, "strings": true, "strconv": true, "time": true, "context": true,
	"path/filepath": true, "internal/filepathlite": true, "io/ioutil": true, "io/fs": true,
	"internal/oserror": true, "sort": true, "math/bits": true, "internal/itoa": true,
	"internal/stringslite": true, "slices": true, "cmp": true, "unicode/utf16": true,
	"internal/byteorder": true, "math": true,
}

type Engine struct {
	Cfg   Config
	prog  *ssa.Program
	pkgs  []*ssa.Package
	byPkg map[string]*ssa.Package

	reflectPackage   *ssa.Package
	reflectValueType types.Type
	rtypeMethods     methodSet
	errorMethods     methodSet
	errorStringType  types.Type
	ioReadFull       *ssa.Function
	runtimeErrString types.Type
	sizes            types.Sizes
	needsInit        map[*ssa.Global]string // globals of non-initialised packages that have initialisers

	litmus     bool // the current entry is an engine litmus harness: races inside harness code are reported
	harnessFnM sync.Map
	fnInfos    sync.Map

	LoadTime time.Duration

	mu           sync.Mutex
	unknowns     map[string]int
	solverErrs   []string
	engineErrs   []string
	discharged   int
	deadlineHit  bool
	globalsProto map[*ssa.Global]bool
}

// siblingLabel reports whether label carries the tag of a property other than
// the ones this run claims.
func (e *Engine) siblingLabel(label string) bool {
	if len(e.Cfg.ClaimPrefixes) == 0 || len(label) < 4 || label[0] != 'C' || label[3] != ':' ||
		label[1] < '0' || label[1] > '9' || label[2] < '0' || label[2] > '9' {
		return false
	}
	for _, p := range e.Cfg.ClaimPrefixes {
		if strings.HasPrefix(label, p) {
			return false
		}
	}
	return true
}

func (e *Engine) noteUnknown(what string) {
	e.mu.Lock()
	e.unknowns[what]++
	e.mu.Unlock()
}
func (e *Engine) noteSolverError(err error) {
	e.mu.Lock()
	if len(e.solverErrs) < 20 {
		e.solverErrs = append(e.solverErrs, err.Error())
	}
	e.unknowns["solver error"]++
	e.mu.Unlock()
}
func (e *Engine) noteEngineError(s string) {
	e.mu.Lock()
	if len(e.engineErrs) < 20 {
		e.engineErrs = append(e.engineErrs, s)
	}
	e.mu.Unlock()
}
func (e *Engine) noteDischarged() {
	e.mu.Lock()
	e.discharged++
	e.mu.Unlock()
}
func (e *Engine) deadlineExceeded() bool {
	if e.Cfg.Deadline.IsZero() {
		return false
	}
	if time.Now().After(e.Cfg.Deadline) {
		e.mu.Lock()
		e.deadlineHit = true
		e.mu.Unlock()
		return true
	}
	return false
}

// Load type-checks the repository packages (with the overlay) and builds SSA.
func Load(cfg Config) (*Engine, error) {
	t0 := time.Now()
	pcfg := &packages.Config{
		Mode:    packages.LoadAllSyntax,
		Dir:     cfg.RepoDir,
		Overlay: cfg.Overlay,
		Env: append(os.Environ(), "GOFLAGS=-mod=mod", "GOPROXY=off", "GOSUMDB=off",
			"GOTOOLCHAIN=local", "CGO_ENABLED=0"),
		Tests: false,
	}
	initial, err := packages.Load(pcfg, cfg.Patterns...)
	if err != nil {
		return nil, err
	}
	var errs []string
	packages.Visit(initial, nil, func(p *packages.Package) {
		for _, e := range p.Errors {
			errs = append(errs, e.Error())
		}
	})
	if len(errs) > 0 {
		return nil, fmt.Errorf("load errors (harness no longer type-checks against the repository?):\n%s", strings.Join(errs, "\n"))
	}
	prog, pkgs := ssautil.AllPackages(initial, ssa.InstantiateGenerics|ssa.SanityCheckFunctions&0)
	prog.Build()
	e := &Engine{Cfg: cfg, prog: prog, byPkg: map[string]*ssa.Package{},
		unknowns: map[string]int{}, needsInit: map[*ssa.Global]string{}}
	for _, p := range pkgs {
		if p != nil {
			e.pkgs = append(e.pkgs, p)
		}
	}
	for _, p := range prog.AllPackages() {
		e.byPkg[p.Pkg.Path()] = p
	}
	e.sizes = types.SizesFor("gc", "amd64")
	rt := prog.ImportedPackage("runtime")
	if rt == nil {
		return nil, fmt.Errorf("program does not include runtime")
	}
	e.runtimeErrString = rt.Type("errorString").Object().Type()
	if ep := prog.ImportedPackage("errors"); ep != nil {
		e.errorStringType = ep.Type("errorString").Object().Type()
	}
	if iop := prog.ImportedPackage("io"); iop != nil {
		e.ioReadFull = iop.Func("ReadFull")
	}
	initReflect(e)
	// which globals have initialisers in packages whose init we do not run
	for _, p := range prog.AllPackages() {
		if e.runsInit(p) {
			continue
		}
		initFn := p.Func("init")
		if initFn == nil {
			continue
		}
		for _, b := range initFn.Blocks {
			for _, ins := range b.Instrs {
				if st, ok := ins.(*ssa.Store); ok {
					if g := rootGlobal(st.Addr); g != nil {
						e.needsInit[g] = p.Pkg.Path()
					}
				}
			}
		}
	}
	e.LoadTime = time.Since(t0)
	return e, nil
}

func rootGlobal(v ssa.Value) *ssa.Global {
	for {
		switch x := v.(type) {
		case *ssa.Global:
			return x
		case *ssa.FieldAddr:
			v = x.X
		case *ssa.IndexAddr:
			v = x.X
		default:
			return nil
		}
	}
}

func (e *Engine) isRepoPkg(path string) bool {
	return path == e.Cfg.Module || strings.HasPrefix(path, e.Cfg.Module+"/")
}

func (e *Engine) runsInit(p *ssa.Package) bool {
	path := p.Pkg.Path()
	return e.isRepoPkg(path) || initWhitelist[path]
}

func fnPkg(fn *ssa.Function) *ssa.Package {
	for fn != nil {
		if fn.Pkg != nil {
			return fn.Pkg
		}
		if fn.Parent() != nil {
			fn = fn.Parent()
			continue
		}
		if o := fn.Origin(); o != nil && o != fn {
			fn = o
			continue
		}
		break
	}
	return nil
}

func (e *Engine) isRepoFn(fn *ssa.Function) bool {
	p := fnPkg(fn)
	if p == nil {
		// synthetic wrapper: look at the receiver/pkg of the object
		if fn.Object() != nil && fn.Object().Pkg() != nil {
			return e.isRepoPkg(fn.Object().Pkg().Path())
		}
		return false
	}
	return e.isRepoPkg(p.Pkg.Path())
}

// preemptible: visible operations inside these functions are scheduling points.
func (e *Engine) preemptible(fn *ssa.Function) bool {
	return e.isRepoFn(fn)
}

// Entry looks up a harness function "pkgpath.Name".
func (e *Engine) Entry(pkgPath, name string) (*ssa.Function, error) {
	p := e.byPkg[pkgPath]
	if p == nil {
		return nil, fmt.Errorf("package %s not loaded", pkgPath)
	}
	f := p.Func(name)
	if f == nil {
		return nil, fmt.Errorf("harness %s.%s not found", pkgPath, name)
	}
	return f, nil
}

// HarnessNames lists the Verif* entry points of a package.
func (e *Engine) HarnessNames(pkgPath string) []string {
	p := e.byPkg[pkgPath]
	if p == nil {
		return nil
	}
	var out []string
	for name, m := range p.Members {
		if f, ok := m.(*ssa.Function); ok && strings.HasPrefix(name, "Verif") && e.isHarnessFn(f) {
			out = append(out, name)
		}
	}
	sort.Strings(out)
	return out
}

func (e *Engine) Fset() *token.FileSet { return e.prog.Fset }

// ---------------------------------------------------------------------------------

// PathSample is a completed path with a model of its path condition, used for
// the native differential and for evidence.
type PathSample struct {
	Harness string            `json:"harness"`
	Vars    map[string]uint64 `json:"vars"`
	Obs     []string          `json:"obs"`
	Labels  []string          `json:"labels"`
	Status  string            `json:"status"`
	Multi   bool              `json:"multi_goroutine"`
}

type RunResult struct {
	Harness       string
	Paths         int
	Status        map[string]int
	Violations    []*Violation
	Inconclusive  []string
	Reach         map[string]int
	Samples       []PathSample
	Forks         int
	Steps         int64
	MaxSteps      int64
	Asserts       int
	Discharged    int
	Unknowns      map[string]int
	SolverErrors  []string
	EngineErrors  []string
	Funcs         map[string]int
	Stubs         map[string]int
	Solver        smt.Stats
	Wall          time.Duration
	DeadlineHit   bool
	MaxGoroutines int
	Switches      int
	OpaqueFmt     int
	Truncated     bool
	Outcomes      map[string]int // distinct observation tuples of paths without symbolic inputs
}

type workList struct {
	mu     sync.Mutex
	cond   *sync.Cond
	items  []workItem
	active int
	closed bool
}

func (w *workList) push(it workItem) {
	w.mu.Lock()
	w.items = append(w.items, it)
	w.mu.Unlock()
	w.cond.Signal()
}

func (w *workList) pop() (workItem, bool) {
	w.mu.Lock()
	defer w.mu.Unlock()
	for len(w.items) == 0 {
		if w.active == 0 || w.closed {
			w.cond.Broadcast()
			return workItem{}, false
		}
		w.cond.Wait()
	}
	if w.closed {
		return workItem{}, false
	}
	it := w.items[len(w.items)-1]
	w.items = w.items[:len(w.items)-1]
	w.active++
	return it, true
}

func (w *workList) done() {
	w.mu.Lock()
	w.active--
	if w.active == 0 && len(w.items) == 0 {
		w.cond.Broadcast()
	}
	w.mu.Unlock()
}

// Explore runs the harness entry over all paths.
func (e *Engine) Explore(entry *ssa.Function) *RunResult {
	t0 := time.Now()
	e.litmus = strings.HasPrefix(entry.Name(), "VerifLitmus")
	res := &RunResult{Harness: entry.Name(), Status: map[string]int{}, Reach: map[string]int{},
		Funcs: map[string]int{}, Stubs: map[string]int{}, Outcomes: map[string]int{}}
	e.mu.Lock()
	e.unknowns = map[string]int{}
	e.solverErrs = nil
	e.engineErrs = nil
	e.discharged = 0
	e.deadlineHit = false
	e.mu.Unlock()

	wl := &workList{}
	wl.cond = sync.NewCond(&wl.mu)
	wl.items = []workItem{{}}
	var rmu sync.Mutex
	var wg sync.WaitGroup
	nw := e.Cfg.Workers
	if nw <= 0 {
		nw = 1
	}
	violKeys := map[string]int{}
	for w := 0; w < nw; w++ {
		wg.Add(1)
		go func() {
			defer wg.Done()
			kind := e.Cfg.Solver
			if kind == "" {
				kind = "z3"
			}
			solver, err := smt.NewSolver(kind, e.Cfg.QueryTimeout)
			if err != nil {
				e.noteEngineError("cannot start solver: " + err.Error())
				return
			}
			defer solver.Close()
			for {
				item, ok := wl.pop()
				if !ok {
					break
				}
				ps := e.runPath(entry, solver, item)
				for _, sib := range ps.siblings {
					wl.push(sib)
				}
				rmu.Lock()
				res.Paths++
				res.Status[ps.status]++
				res.Forks += ps.forks
				res.Steps += ps.steps
				if ps.steps > res.MaxSteps {
					res.MaxSteps = ps.steps
				}
				res.Asserts += ps.nAsserts
				res.OpaqueFmt += ps.opaqueFmt
				if ps.sched != nil {
					if len(ps.sched.gs) > res.MaxGoroutines {
						res.MaxGoroutines = len(ps.sched.gs)
					}
					res.Switches += ps.sched.switches
				}
				for l := range ps.reach {
					res.Reach[l]++
				}
				if ps.completed && len(ps.vars) == 0 && len(res.Outcomes) < 10000 {
					key := ""
					for _, o := range ps.obs {
						key += o.Label + "=" + formatObs(smt.Model{}, o.Val) + ","
					}
					res.Outcomes[key]++
				}
				for fi := range ps.fnSeenFi {
					res.Funcs[fi.name] = fi.nblocks
				}
				for f, n := range ps.stubs {
					res.Stubs[f] += n
				}
				if ps.status == "inconclusive" {
					if len(res.Inconclusive) < 50 {
						res.Inconclusive = append(res.Inconclusive, ps.reason)
					}
				}
				for _, v := range ps.viol {
					k := v.Kind + "|" + v.Label + "|" + v.Site
					violKeys[k]++
					if violKeys[k] <= 3 {
						res.Violations = append(res.Violations, v)
					}
				}
				if ps.completed && (e.Cfg.KeepSamples == 0 || len(res.Samples) < e.Cfg.KeepSamples) {
					if s, ok := e.sampleOf(entry, ps); ok {
						res.Samples = append(res.Samples, s)
					}
				}
				stop := e.Cfg.MaxPaths > 0 && res.Paths >= e.Cfg.MaxPaths
				rmu.Unlock()
				wl.done()
				if stop {
					wl.mu.Lock()
					wl.closed = true
					res.Truncated = true
					wl.mu.Unlock()
					wl.cond.Broadcast()
				}
			}
			rmu.Lock()
			res.Solver.Queries += solver.Stats.Queries
			res.Solver.Sat += solver.Stats.Sat
			res.Solver.Unsat += solver.Stats.Unsat
			res.Solver.Unknown += solver.Stats.Unknown
			res.Solver.Time += solver.Stats.Time
			rmu.Unlock()
		}()
	}
	wg.Wait()
	res.Wall = time.Since(t0)
	e.mu.Lock()
	res.Unknowns = e.unknowns
	res.SolverErrors = e.solverErrs
	res.EngineErrors = e.engineErrs
	res.Discharged = e.discharged
	res.DeadlineHit = e.deadlineHit
	e.mu.Unlock()
	return res
}

func (e *Engine) sampleOf(entry *ssa.Function, ps *pathState) (PathSample, bool) {
	defer func() { recover() }()
	m, ok := ps.currentModel()
	if !ok {
		return PathSample{}, false
	}
	s := PathSample{Harness: entry.Name(), Vars: map[string]uint64{}, Status: "done"}
	for i, nv := range ps.vars {
		s.Vars[nv.Name] = m.Eval(ps.varTerms[i])
	}
	for _, c := range ps.ndChoices {
		s.Vars[c.Name] = uint64(c.V)
	}
	for _, o := range ps.obs {
		s.Obs = append(s.Obs, o.Label+"="+formatObs(m, o.Val))
	}
	for l := range ps.reach {
		s.Labels = append(s.Labels, l)
	}
	sort.Strings(s.Labels)
	s.Multi = ps.sched != nil && len(ps.sched.gs) > 1
	return s, true
}

// runPath executes one path from the harness entry.
func (e *Engine) runPath(entry *ssa.Function, solver *smt.Solver, item workItem) (ps *pathState) {
	ps = newPathState(e, solver, item)
	ps.sched = newScheduler(ps)
	i := &interpreter{
		prog:               e.prog,
		globals:            make(map[*ssa.Global]*value),
		eng:                e,
		ps:                 ps,
		sizes:              e.sizes,
		runtimeErrorString: e.runtimeErrString,
	}
	if e.Cfg.Trace {
		i.mode |= EnableTracing
	}
	func() {
		defer func() {
			r := recover()
			if r == nil {
				return
			}
			switch r := r.(type) {
			case abortPath:
				ps.status, ps.reason = r.status, r.reason
				if ps.sched.aborting && ps.status == "" {
					ps.status, ps.reason = ps.sched.abortStat.status, ps.sched.abortStat.reason
				}
			case unsupported:
				ps.status, ps.reason = "inconclusive", r.String()
			default:
				// target panic reaching the top of the main goroutine: the
				// process would crash
				msg := i.panicMessage(r)
				func() {
					defer func() {
						if rr := recover(); rr != nil {
							if ap, ok := rr.(abortPath); ok {
								ps.status, ps.reason = ap.status, ap.reason
							}
						}
					}()
					ps.violation("panic", msg, ps.panicSite, nil)
					ps.status, ps.reason = "violation", msg
					if ps.panicStack != "" && len(ps.viol) > 0 {
						ps.viol[len(ps.viol)-1].Extra = ps.panicStack
					}
				}()
			}
		}()
		// package initialisation (whitelisted packages only; see callSSA)
		entryPkg := fnPkg(entry)
		call(i, nil, token.NoPos, entryPkg.Func("init"), nil)
		ps.steps = 0
		ps.panicSite = ""
		call(i, nil, token.NoPos, entry, nil)
		ps.completed = true
		if ps.status == "" {
			ps.status = "done"
		}
	}()
	// terminate remaining goroutines
	ps.sched.main.done = true
	ps.sched.abortAll(abortPath{ps.status, ps.reason}, false)
	ps.sched.wg.Wait()
	if len(ps.viol) > 0 && ps.status == "done" {
		ps.status = "violation"
	}
	return ps
}

// panicMessage renders a recovered target panic like the Go runtime would.
func (i *interpreter) panicMessage(r interface{}) (msg string) {
	defer func() {
		if rr := recover(); rr != nil {
			msg = panicText(r)
		}
	}()
	if tp, ok := r.(targetPanic); ok {
		if it, ok := tp.v.(iface); ok && it.t != nil {
			if m := i.errorMethodOf(it.t); m != nil {
				s := call(i, nil, token.NoPos, m, []value{it.v})
				return "panic: " + toString(s)
			}
			if s, ok := it.v.(string); ok {
				return "panic: " + s
			}
		}
	}
	return panicText(r)
}

func (i *interpreter) checkInitialised(g *ssa.Global) {
	if pkg, ok := i.eng.needsInit[g]; ok {
		panic(unsupported{fmt.Sprintf("global %s of package %s whose init is not run", g.Name(), pkg)})
	}
}
