package smt

import (
	"bufio"
	"fmt"
	"io"
	"os/exec"
	"strconv"
	"strings"
	"time"
)

type Result int

const (
	Unsat Result = iota
	Sat
	Unknown
)

func (r Result) String() string {
	switch r {
	case Unsat:
		return "unsat"
	case Sat:
		return "sat"
	}
	return "unknown"
}

// Solver drives one SMT solver process over a pipe.
type Solver struct {
	Kind    string // "z3", "z3-new", "cvc5"
	cmd     *exec.Cmd
	in      io.WriteCloser
	out     *bufio.Reader
	pr      *Printer
	vars    map[*Term]bool // variables declared in the current context, for get-value
	varList [][]*Term      // per scope
	Stats   Stats
	Log     io.Writer // optional transcript
	timeout time.Duration
}

type Stats struct {
	Queries int
	Sat     int
	Unsat   int
	Unknown int
	Time    time.Duration
}

func NewSolver(kind string, timeout time.Duration) (*Solver, error) {
	var cmd *exec.Cmd
	ms := int(timeout / time.Millisecond)
	switch kind {
	case "z3", "z3-new":
		cmd = exec.Command(kind, "-in", "-smt2", fmt.Sprintf("-t:%d", ms))
	case "cvc5":
		cmd = exec.Command("cvc5", "--incremental", "--lang=smt2", "--produce-models", fmt.Sprintf("--tlimit-per=%d", ms))
	default:
		return nil, fmt.Errorf("unknown solver %q", kind)
	}
	in, err := cmd.StdinPipe()
	if err != nil {
		return nil, err
	}
	out, err := cmd.StdoutPipe()
	if err != nil {
		return nil, err
	}
	cmd.Stderr = cmd.Stdout
	if err := cmd.Start(); err != nil {
		return nil, err
	}
	s := &Solver{Kind: kind, cmd: cmd, in: in, out: bufio.NewReaderSize(out, 1<<16), pr: NewPrinter(), timeout: timeout}
	s.varList = [][]*Term{nil}
	s.vars = map[*Term]bool{}
	if kind == "cvc5" {
		s.send("(set-logic QF_BV)\n")
	}
	s.send("(set-option :produce-models true)\n")
	return s, nil
}

func (s *Solver) send(str string) {
	if s.Log != nil {
		io.WriteString(s.Log, str)
	}
	io.WriteString(s.in, str)
}

func (s *Solver) Close() {
	if s.cmd != nil {
		s.in.Close()
		s.cmd.Process.Kill()
		s.cmd.Wait()
		s.cmd = nil
	}
}

// Reset clears all assertions and declarations.
func (s *Solver) Reset() {
	s.send("(reset)\n")
	if s.Kind == "cvc5" {
		s.send("(set-logic QF_BV)\n")
	}
	s.send("(set-option :produce-models true)\n")
	s.pr.Reset()
	s.varList = [][]*Term{nil}
	s.vars = map[*Term]bool{}
}

func (s *Solver) Push() {
	s.send("(push 1)\n")
	s.pr.Push()
	s.varList = append(s.varList, nil)
}

func (s *Solver) Pop() {
	s.send("(pop 1)\n")
	s.pr.Pop()
	top := s.varList[len(s.varList)-1]
	for _, v := range top {
		delete(s.vars, v)
	}
	s.varList = s.varList[:len(s.varList)-1]
}

func (s *Solver) noteVars(t *Term) {
	for _, v := range Vars(t) {
		if !s.vars[v] {
			s.vars[v] = true
			s.varList[len(s.varList)-1] = append(s.varList[len(s.varList)-1], v)
		}
	}
}

func (s *Solver) Assert(t *Term) {
	if t.IsTrue() {
		return
	}
	var sb strings.Builder
	n := s.pr.Define(&sb, t)
	s.noteVars(t)
	fmt.Fprintf(&sb, "(assert %s)\n", n)
	s.send(sb.String())
}

func (s *Solver) readLine() (string, error) {
	line, err := s.out.ReadString('\n')
	if s.Log != nil {
		io.WriteString(s.Log, "; <- "+line)
	}
	return strings.TrimSpace(line), err
}

// Check runs check-sat.  Any error output makes the result Unknown.
func (s *Solver) Check() (Result, error) {
	t0 := time.Now()
	s.send("(check-sat)\n")
	s.Stats.Queries++
	var res Result = Unknown
	var rerr error
	for {
		line, err := s.readLine()
		if err != nil {
			rerr = fmt.Errorf("solver %s died: %v", s.Kind, err)
			break
		}
		if line == "" {
			continue
		}
		if line == "sat" {
			res = Sat
			break
		}
		if line == "unsat" {
			res = Unsat
			break
		}
		if line == "unknown" || strings.HasPrefix(line, "timeout") {
			res = Unknown
			break
		}
		if strings.HasPrefix(line, "(error") {
			rerr = fmt.Errorf("solver %s: %s", s.Kind, line)
			// keep reading until a verdict arrives so the stream stays in sync
			continue
		}
		// unsupported / other noise
		if strings.HasPrefix(line, "unsupported") || strings.HasPrefix(line, "success") {
			continue
		}
		rerr = fmt.Errorf("solver %s: unexpected output %q", s.Kind, line)
	}
	s.Stats.Time += time.Since(t0)
	if rerr != nil {
		res = Unknown
	}
	switch res {
	case Sat:
		s.Stats.Sat++
	case Unsat:
		s.Stats.Unsat++
	default:
		s.Stats.Unknown++
	}
	return res, rerr
}

// CheckWith checks satisfiability of the current assertions plus extra, in a
// temporary scope.
func (s *Solver) CheckWith(extra *Term, wantModel bool) (Result, Model, error) {
	if extra.IsFalse() {
		return Unsat, nil, nil
	}
	s.Push()
	s.Assert(extra)
	r, err := s.Check()
	var m Model
	if r == Sat && wantModel && err == nil {
		m, err = s.GetModel()
		if err != nil {
			r = Unknown
		}
	}
	s.Pop()
	return r, m, err
}

// GetModel fetches values of every declared variable after a sat answer.
func (s *Solver) GetModel() (Model, error) {
	m := Model{}
	var vs []*Term
	for _, sc := range s.varList {
		vs = append(vs, sc...)
	}
	if len(vs) == 0 {
		return m, nil
	}
	var sb strings.Builder
	sb.WriteString("(get-value (")
	for _, v := range vs {
		sb.WriteString(quoteSym(v.Name))
		sb.WriteByte(' ')
	}
	sb.WriteString("))\n")
	s.send(sb.String())
	// read a balanced s-expression
	depth := 0
	var txt strings.Builder
	started := false
	for {
		line, err := s.out.ReadString('\n')
		if err != nil {
			return nil, fmt.Errorf("solver %s died in get-value: %v", s.Kind, err)
		}
		if s.Log != nil {
			io.WriteString(s.Log, "; <- "+line)
		}
		inBar := false
		for _, ch := range line {
			if ch == '|' {
				inBar = !inBar
			}
			if inBar {
				continue
			}
			if ch == '(' {
				depth++
				started = true
			} else if ch == ')' {
				depth--
			}
		}
		txt.WriteString(line)
		if started && depth <= 0 {
			break
		}
	}
	str := txt.String()
	if strings.Contains(str, "(error") {
		return nil, fmt.Errorf("solver %s: %s", s.Kind, strings.TrimSpace(str))
	}
	// tokenise the s-expression: ( ) atoms, |quoted symbols|
	var toks []string
	for p := 0; p < len(str); {
		ch := str[p]
		switch {
		case ch == '(' || ch == ')':
			toks = append(toks, string(ch))
			p++
		case ch == ' ' || ch == '\n' || ch == '\t' || ch == '\r':
			p++
		case ch == '|':
			q := strings.IndexByte(str[p+1:], '|')
			if q < 0 {
				p = len(str)
				break
			}
			toks = append(toks, str[p+1:p+1+q])
			p += q + 2
		default:
			q := p
			for q < len(str) && !strings.ContainsRune("() \n\t\r", rune(str[q])) {
				q++
			}
			toks = append(toks, str[p:q])
			p = q
		}
	}
	// expected shape: ( ( name value ) ( name value ) ... ) where value is an
	// atom (#x.., #b.., true, false) or ( _ bvN W )
	for p := 0; p+2 < len(toks); p++ {
		if toks[p] != "(" || toks[p+1] == "(" || toks[p+1] == ")" {
			continue
		}
		name := toks[p+1]
		var val uint64
		tok := toks[p+2]
		switch {
		case strings.HasPrefix(tok, "#x"):
			val, _ = strconv.ParseUint(tok[2:], 16, 64)
		case strings.HasPrefix(tok, "#b"):
			val, _ = strconv.ParseUint(tok[2:], 2, 64)
		case tok == "true":
			val = 1
		case tok == "false":
			val = 0
		case tok == "(" && p+4 < len(toks) && toks[p+3] == "_" && strings.HasPrefix(toks[p+4], "bv"):
			val, _ = strconv.ParseUint(toks[p+4][2:], 10, 64)
		default:
			continue
		}
		m[name] = val
	}
	return m, nil
}
