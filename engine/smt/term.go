// Package smt is a small hash-consed bit-vector/boolean term DAG with local
// simplification, a concrete evaluator and an SMT-LIB2 printer.  Widths are
// 1..64 bits; W==0 denotes the Bool sort.
package smt

import (
	"fmt"
	"math/bits"
	"sort"
	"strings"
	"sync"
)

type Op uint8

const (
	OpConst Op = iota // bit-vector constant (Val) or boolean constant (W==0, Val 0/1)
	OpVar             // Name
	// bit-vector -> bit-vector
	OpAdd
	OpSub
	OpMul
	OpUDiv
	OpSDiv
	OpURem
	OpSRem
	OpAnd
	OpOr
	OpXor
	OpNot
	OpNeg
	OpShl
	OpLShr
	OpAShr
	OpConcat  // A = high part, B = low part
	OpExtract // Hi, Lo
	OpZExt    // to width W
	OpSExt    // to width W
	OpIte     // C ? A : B  (bv or bool)
	// -> Bool
	OpEq
	OpULt
	OpULe
	OpSLt
	OpSLe
	OpBNot
	OpBAnd
	OpBOr
)

var opNames = map[Op]string{
	OpAdd: "bvadd", OpSub: "bvsub", OpMul: "bvmul", OpUDiv: "bvudiv", OpSDiv: "bvsdiv",
	OpURem: "bvurem", OpSRem: "bvsrem", OpAnd: "bvand", OpOr: "bvor", OpXor: "bvxor",
	OpNot: "bvnot", OpNeg: "bvneg", OpShl: "bvshl", OpLShr: "bvlshr", OpAShr: "bvashr",
	OpConcat: "concat", OpIte: "ite", OpEq: "=", OpULt: "bvult", OpULe: "bvule",
	OpSLt: "bvslt", OpSLe: "bvsle", OpBNot: "not", OpBAnd: "and", OpBOr: "or",
}

// Term is an immutable, hash-consed node.  Pointer equality is structural
// equality within one Ctx.
type Term struct {
	Op      Op
	W       uint8 // result width; 0 = Bool
	A, B, C *Term
	Val     uint64
	Hi, Lo  uint8
	Name    string
	Ctx     *Ctx
	id      uint32
}

func (t *Term) ID() uint32    { return t.id }
func (t *Term) IsConst() bool { return t.Op == OpConst }
func (t *Term) IsBool() bool  { return t.W == 0 }
func (t *Term) IsTrue() bool  { return t.Op == OpConst && t.W == 0 && t.Val == 1 }
func (t *Term) IsFalse() bool { return t.Op == OpConst && t.W == 0 && t.Val == 0 }

type key struct {
	op      Op
	w       uint8
	a, b, c uint32
	val     uint64
	hi, lo  uint8
	name    string
}

// Ctx owns the hash-cons table.  It is safe for concurrent use.
type Ctx struct {
	mu    sync.Mutex
	table map[key]*Term
	next  uint32
	True  *Term
	False *Term
}

func NewCtx() *Ctx {
	c := &Ctx{table: make(map[key]*Term), next: 1}
	c.True = c.mk(&Term{Op: OpConst, W: 0, Val: 1})
	c.False = c.mk(&Term{Op: OpConst, W: 0, Val: 0})
	return c
}

func tid(t *Term) uint32 {
	if t == nil {
		return 0
	}
	return t.id
}

func (c *Ctx) mk(t *Term) *Term {
	k := key{t.Op, t.W, tid(t.A), tid(t.B), tid(t.C), t.Val, t.Hi, t.Lo, t.Name}
	c.mu.Lock()
	defer c.mu.Unlock()
	if old, ok := c.table[k]; ok {
		return old
	}
	t.id = c.next
	t.Ctx = c
	c.next++
	c.table[k] = t
	return t
}

func mask(w uint8) uint64 {
	if w >= 64 {
		return ^uint64(0)
	}
	return (uint64(1) << w) - 1
}

func sext64(v uint64, w uint8) int64 {
	if w >= 64 {
		return int64(v)
	}
	sh := 64 - uint(w)
	return int64(v<<sh) >> sh
}

func (c *Ctx) Const(w uint8, v uint64) *Term {
	if w == 0 {
		panic("Const: use Bool")
	}
	return c.mk(&Term{Op: OpConst, W: w, Val: v & mask(w)})
}

func (c *Ctx) Bool(b bool) *Term {
	if b {
		return c.True
	}
	return c.False
}

func (c *Ctx) Var(name string, w uint8) *Term {
	return c.mk(&Term{Op: OpVar, W: w, Name: name})
}

func (c *Ctx) bin(op Op, a, b *Term) *Term {
	if a.W != b.W {
		panic(fmt.Sprintf("smt: width mismatch %s: %d vs %d", opNames[op], a.W, b.W))
	}
	w := a.W
	if a.IsConst() && b.IsConst() {
		if v, ok := evalBin(op, w, a.Val, b.Val); ok {
			return c.Const(w, v)
		}
	}
	// commutative ops: constant to the right, ordered by id
	switch op {
	case OpAdd, OpMul, OpAnd, OpOr, OpXor:
		if a.IsConst() || (!b.IsConst() && a.id > b.id) {
			a, b = b, a
		}
	}
	switch op {
	case OpAdd:
		if b.IsConst() && b.Val == 0 {
			return a
		}
		// (x + c1) + c2 -> x + (c1+c2)
		if b.IsConst() && a.Op == OpAdd && a.B.IsConst() {
			return c.bin(OpAdd, a.A, c.Const(w, a.B.Val+b.Val))
		}
		if b.IsConst() && a.Op == OpSub && a.B.IsConst() {
			return c.bin(OpAdd, a.A, c.Const(w, b.Val-a.B.Val))
		}
	case OpSub:
		if b.IsConst() && b.Val == 0 {
			return a
		}
		if a == b {
			return c.Const(w, 0)
		}
		if b.IsConst() {
			return c.bin(OpAdd, a, c.Const(w, -b.Val))
		}
	case OpMul:
		if b.IsConst() && b.Val == 1 {
			return a
		}
		if b.IsConst() && b.Val == 0 {
			return b
		}
	case OpAnd:
		if a == b {
			return a
		}
		if b.IsConst() && b.Val == 0 {
			return b
		}
		if b.IsConst() && b.Val == mask(w) {
			return a
		}
		// x & lowmask(k)  ->  zext(extract(k-1,0,x))
		if b.IsConst() && b.Val != 0 && (b.Val&(b.Val+1)) == 0 {
			k := uint8(bits.Len64(b.Val))
			return c.ZExt(c.Extract(a, k-1, 0), w)
		}
	case OpOr:
		if a == b {
			return a
		}
		if b.IsConst() && b.Val == 0 {
			return a
		}
		if b.IsConst() && b.Val == mask(w) {
			return b
		}
		if r := c.orDisjoint(a, b); r != nil {
			return r
		}
	case OpXor:
		if a == b {
			return c.Const(w, 0)
		}
		if b.IsConst() && b.Val == 0 {
			return a
		}
	case OpShl, OpLShr, OpAShr:
		if b.IsConst() && b.Val == 0 {
			return a
		}
		if b.IsConst() && b.Val >= uint64(w) && op != OpAShr {
			return c.Const(w, 0)
		}
		if b.IsConst() && op == OpShl {
			k := uint8(b.Val)
			return c.Concat(c.Extract(a, w-1-k, 0), c.Const(k, 0))
		}
		if b.IsConst() && op == OpLShr {
			k := uint8(b.Val)
			return c.ZExt(c.Extract(a, w-1, k), w)
		}
	case OpUDiv, OpSDiv:
		if b.IsConst() && b.Val == 1 {
			return a
		}
	}
	return c.mk(&Term{Op: op, W: w, A: a, B: b})
}

// pieces decomposes t into a list of (term or zero) chunks from high to low, if
// t is built from concat/zext/constants; used to turn OR of disjoint parts into
// a concat.
type piece struct {
	t *Term // nil => zeros
	w uint8
}

func (c *Ctx) pieces(t *Term, out []piece) []piece {
	switch t.Op {
	case OpConcat:
		out = c.pieces(t.A, out)
		return c.pieces(t.B, out)
	case OpZExt:
		out = append(out, piece{nil, t.W - t.A.W})
		return c.pieces(t.A, out)
	case OpConst:
		if t.Val == 0 {
			return append(out, piece{nil, t.W})
		}
	}
	return append(out, piece{t, t.W})
}

func (c *Ctx) orDisjoint(a, b *Term) *Term {
	if a.Op != OpConcat && a.Op != OpZExt {
		return nil
	}
	if b.Op != OpConcat && b.Op != OpZExt {
		return nil
	}
	pa := c.pieces(a, nil)
	pb := c.pieces(b, nil)
	// walk from the high end, splitting zero pieces as needed
	var res []*Term
	i, j := 0, 0
	for i < len(pa) && j < len(pb) {
		x, y := pa[i], pb[j]
		switch {
		case x.t == nil && y.t == nil:
			w := x.w
			if y.w < w {
				w = y.w
			}
			res = append(res, c.Const(w, 0))
			pa[i].w -= w
			pb[j].w -= w
		case x.t == nil:
			if x.w < y.w {
				return nil
			}
			res = append(res, y.t)
			pa[i].w -= y.w
			pb[j].w = 0
		case y.t == nil:
			if y.w < x.w {
				return nil
			}
			res = append(res, x.t)
			pb[j].w -= x.w
			pa[i].w = 0
		default:
			return nil
		}
		if pa[i].w == 0 {
			i++
		}
		if pb[j].w == 0 {
			j++
		}
	}
	if i != len(pa) || j != len(pb) {
		return nil
	}
	r := res[0]
	for _, p := range res[1:] {
		r = c.Concat(r, p)
	}
	return r
}

func evalBin(op Op, w uint8, a, b uint64) (uint64, bool) {
	m := mask(w)
	switch op {
	case OpAdd:
		return (a + b) & m, true
	case OpSub:
		return (a - b) & m, true
	case OpMul:
		return (a * b) & m, true
	case OpUDiv:
		if b == 0 {
			return m, true // SMT-LIB: all ones
		}
		return (a / b) & m, true
	case OpURem:
		if b == 0 {
			return a, true
		}
		return (a % b) & m, true
	case OpSDiv:
		sa, sb := sext64(a, w), sext64(b, w)
		if sb == 0 {
			if sa < 0 {
				return 1, true
			}
			return m, true
		}
		if sb == -1 {
			return uint64(-sa) & m, true
		}
		return uint64(sa/sb) & m, true
	case OpSRem:
		sa, sb := sext64(a, w), sext64(b, w)
		if sb == 0 {
			return a, true
		}
		if sb == -1 {
			return 0, true
		}
		return uint64(sa%sb) & m, true
	case OpAnd:
		return a & b, true
	case OpOr:
		return a | b, true
	case OpXor:
		return a ^ b, true
	case OpShl:
		if b >= uint64(w) {
			return 0, true
		}
		return (a << b) & m, true
	case OpLShr:
		if b >= uint64(w) {
			return 0, true
		}
		return (a >> b) & m, true
	case OpAShr:
		sa := sext64(a, w)
		if b >= uint64(w) {
			b = uint64(w) - 1
		}
		return uint64(sa>>b) & m, true
	}
	return 0, false
}

func (c *Ctx) Add(a, b *Term) *Term  { return c.bin(OpAdd, a, b) }
func (c *Ctx) Sub(a, b *Term) *Term  { return c.bin(OpSub, a, b) }
func (c *Ctx) Mul(a, b *Term) *Term  { return c.bin(OpMul, a, b) }
func (c *Ctx) UDiv(a, b *Term) *Term { return c.bin(OpUDiv, a, b) }
func (c *Ctx) SDiv(a, b *Term) *Term { return c.bin(OpSDiv, a, b) }
func (c *Ctx) URem(a, b *Term) *Term { return c.bin(OpURem, a, b) }
func (c *Ctx) SRem(a, b *Term) *Term { return c.bin(OpSRem, a, b) }
func (c *Ctx) And(a, b *Term) *Term  { return c.bin(OpAnd, a, b) }
func (c *Ctx) Or(a, b *Term) *Term   { return c.bin(OpOr, a, b) }
func (c *Ctx) Xor(a, b *Term) *Term  { return c.bin(OpXor, a, b) }
func (c *Ctx) Shl(a, b *Term) *Term  { return c.bin(OpShl, a, b) }
func (c *Ctx) LShr(a, b *Term) *Term { return c.bin(OpLShr, a, b) }
func (c *Ctx) AShr(a, b *Term) *Term { return c.bin(OpAShr, a, b) }

func (c *Ctx) Not(a *Term) *Term {
	if a.IsConst() {
		return c.Const(a.W, ^a.Val)
	}
	if a.Op == OpNot {
		return a.A
	}
	return c.mk(&Term{Op: OpNot, W: a.W, A: a})
}

func (c *Ctx) Neg(a *Term) *Term {
	if a.IsConst() {
		return c.Const(a.W, -a.Val)
	}
	return c.mk(&Term{Op: OpNeg, W: a.W, A: a})
}

func (c *Ctx) Concat(hi, lo *Term) *Term {
	w := int(hi.W) + int(lo.W)
	if w > 64 {
		panic("smt: concat wider than 64 bits")
	}
	if hi.IsConst() && lo.IsConst() {
		return c.Const(uint8(w), hi.Val<<lo.W|lo.Val)
	}
	if hi.IsConst() && hi.Val == 0 {
		return c.ZExt(lo, uint8(w))
	}
	// merge adjacent extracts of the same term
	if hi.Op == OpExtract && lo.Op == OpExtract && hi.A == lo.A && hi.Lo == lo.Hi+1 {
		return c.Extract(hi.A, hi.Hi, lo.Lo)
	}
	// concat(x, concat(y, z)) with x,y mergeable
	if lo.Op == OpConcat && hi.Op == OpExtract && lo.A.Op == OpExtract && hi.A == lo.A.A && hi.Lo == lo.A.Hi+1 {
		return c.Concat(c.Extract(hi.A, hi.Hi, lo.A.Lo), lo.B)
	}
	// concat(concat(x, y), z) with y,z mergeable
	if hi.Op == OpConcat && lo.Op == OpExtract && hi.B.Op == OpExtract && hi.B.A == lo.A && hi.B.Lo == lo.Hi+1 {
		return c.Concat(hi.A, c.Extract(lo.A, hi.B.Hi, lo.Lo))
	}
	return c.mk(&Term{Op: OpConcat, W: uint8(w), A: hi, B: lo})
}

func (c *Ctx) Extract(a *Term, hi, lo uint8) *Term {
	if hi < lo || hi >= a.W {
		panic(fmt.Sprintf("smt: bad extract [%d:%d] of width %d", hi, lo, a.W))
	}
	w := hi - lo + 1
	if w == a.W {
		return a
	}
	switch a.Op {
	case OpConst:
		return c.Const(w, a.Val>>lo)
	case OpExtract:
		return c.Extract(a.A, a.Lo+hi, a.Lo+lo)
	case OpConcat:
		lw := a.B.W
		if hi < lw {
			return c.Extract(a.B, hi, lo)
		}
		if lo >= lw {
			return c.Extract(a.A, hi-lw, lo-lw)
		}
		return c.Concat(c.Extract(a.A, hi-lw, 0), c.Extract(a.B, lw-1, lo))
	case OpZExt:
		iw := a.A.W
		if hi < iw {
			return c.Extract(a.A, hi, lo)
		}
		if lo >= iw {
			return c.Const(w, 0)
		}
		return c.ZExt(c.Extract(a.A, iw-1, lo), w)
	case OpSExt:
		iw := a.A.W
		if hi < iw {
			return c.Extract(a.A, hi, lo)
		}
	case OpAnd, OpOr, OpXor:
		if lo == 0 || true {
			return c.bin(a.Op, c.Extract(a.A, hi, lo), c.Extract(a.B, hi, lo))
		}
	case OpNot:
		return c.Not(c.Extract(a.A, hi, lo))
	case OpAdd, OpSub, OpMul:
		if lo == 0 {
			return c.bin(a.Op, c.Extract(a.A, hi, 0), c.Extract(a.B, hi, 0))
		}
	case OpIte:
		if a.A.IsConst() || a.B.IsConst() {
			return c.Ite(a.C, c.Extract(a.A, hi, lo), c.Extract(a.B, hi, lo))
		}
	}
	return c.mk(&Term{Op: OpExtract, W: w, A: a, Hi: hi, Lo: lo})
}

func (c *Ctx) ZExt(a *Term, w uint8) *Term {
	if w == a.W {
		return a
	}
	if w < a.W {
		panic("smt: zext narrows")
	}
	if a.IsConst() {
		return c.Const(w, a.Val)
	}
	if a.Op == OpZExt {
		return c.ZExt(a.A, w)
	}
	return c.mk(&Term{Op: OpZExt, W: w, A: a})
}

func (c *Ctx) SExt(a *Term, w uint8) *Term {
	if w == a.W {
		return a
	}
	if w < a.W {
		panic("smt: sext narrows")
	}
	if a.IsConst() {
		return c.Const(w, uint64(sext64(a.Val, a.W)))
	}
	if a.Op == OpZExt {
		return c.ZExt(a.A, w) // zero-extended value is non-negative
	}
	return c.mk(&Term{Op: OpSExt, W: w, A: a})
}

func (c *Ctx) Ite(cond, a, b *Term) *Term {
	if !cond.IsBool() {
		panic("smt: ite condition not bool")
	}
	if a.W != b.W {
		panic("smt: ite width mismatch")
	}
	if cond.IsTrue() {
		return a
	}
	if cond.IsFalse() {
		return b
	}
	if a == b {
		return a
	}
	if a.W == 0 {
		// boolean ite
		if a.IsTrue() && b.IsFalse() {
			return cond
		}
		if a.IsFalse() && b.IsTrue() {
			return c.BNot(cond)
		}
		if a.IsTrue() {
			return c.BOr(cond, b)
		}
		if a.IsFalse() {
			return c.BAnd(c.BNot(cond), b)
		}
		if b.IsTrue() {
			return c.BOr(c.BNot(cond), a)
		}
		if b.IsFalse() {
			return c.BAnd(cond, a)
		}
	}
	if cond.Op == OpBNot {
		return c.Ite(cond.A, b, a)
	}
	return c.mk(&Term{Op: OpIte, W: a.W, A: a, B: b, C: cond})
}

func (c *Ctx) Eq(a, b *Term) *Term {
	if a.W != b.W {
		panic(fmt.Sprintf("smt: eq width mismatch %d vs %d", a.W, b.W))
	}
	if a == b {
		return c.True
	}
	if a.IsConst() && b.IsConst() {
		return c.Bool(a.Val == b.Val)
	}
	if a.W == 0 {
		if a.IsTrue() {
			return b
		}
		if b.IsTrue() {
			return a
		}
		if a.IsFalse() {
			return c.BNot(b)
		}
		if b.IsFalse() {
			return c.BNot(a)
		}
	}
	if a.IsConst() {
		a, b = b, a
	}
	if b.IsConst() {
		switch a.Op {
		case OpZExt:
			if b.Val>>a.A.W != 0 {
				return c.False
			}
			return c.Eq(a.A, c.Const(a.A.W, b.Val))
		case OpConcat:
			lw := a.B.W
			return c.BAnd(c.Eq(a.A, c.Const(a.A.W, b.Val>>lw)), c.Eq(a.B, c.Const(lw, b.Val)))
		case OpIte:
			if a.A.IsConst() && a.B.IsConst() {
				// ite(c, k1, k2) == k
				ea, eb := a.A.Val == b.Val, a.B.Val == b.Val
				switch {
				case ea && eb:
					return c.True
				case ea:
					return a.C
				case eb:
					return c.BNot(a.C)
				default:
					return c.False
				}
			}
		case OpAdd:
			if a.B.IsConst() {
				return c.Eq(a.A, c.Const(a.W, b.Val-a.B.Val))
			}
		}
	} else {
		if a.id > b.id {
			a, b = b, a
		}
		// zext(x) == zext(y), same inner width
		if a.Op == OpZExt && b.Op == OpZExt && a.A.W == b.A.W {
			return c.Eq(a.A, b.A)
		}
		if a.Op == OpConcat && b.Op == OpConcat && a.B.W == b.B.W {
			return c.BAnd(c.Eq(a.A, b.A), c.Eq(a.B, b.B))
		}
	}
	return c.mk(&Term{Op: OpEq, W: 0, A: a, B: b})
}

func (c *Ctx) cmp(op Op, a, b *Term) *Term {
	if a.W != b.W {
		panic("smt: cmp width mismatch")
	}
	if a.IsConst() && b.IsConst() {
		switch op {
		case OpULt:
			return c.Bool(a.Val < b.Val)
		case OpULe:
			return c.Bool(a.Val <= b.Val)
		case OpSLt:
			return c.Bool(sext64(a.Val, a.W) < sext64(b.Val, b.W))
		case OpSLe:
			return c.Bool(sext64(a.Val, a.W) <= sext64(b.Val, b.W))
		}
	}
	if a == b {
		return c.Bool(op == OpULe || op == OpSLe)
	}
	switch op {
	case OpULt:
		if b.IsConst() && b.Val == 0 {
			return c.False
		}
		if a.IsConst() && a.Val == mask(a.W) {
			return c.False
		}
	case OpULe:
		if a.IsConst() && a.Val == 0 {
			return c.True
		}
		if b.IsConst() && b.Val == mask(b.W) {
			return c.True
		}
	}
	// comparisons between zero-extended values of equal inner width
	if a.Op == OpZExt && b.Op == OpZExt && a.A.W == b.A.W {
		switch op {
		case OpSLt:
			op = OpULt
		case OpSLe:
			op = OpULe
		}
		return c.cmp(op, a.A, b.A)
	}
	// zext(x) vs constant that fits / does not fit
	if a.Op == OpZExt && b.IsConst() {
		iw := a.A.W
		bv := b.Val
		neg := (op == OpSLt || op == OpSLe) && sext64(bv, b.W) < 0
		if neg {
			return c.False
		}
		if bv>>iw != 0 {
			return c.True
		}
		uop := op
		if op == OpSLt {
			uop = OpULt
		} else if op == OpSLe {
			uop = OpULe
		}
		return c.cmp(uop, a.A, c.Const(iw, bv))
	}
	if b.Op == OpZExt && a.IsConst() {
		iw := b.A.W
		av := a.Val
		neg := (op == OpSLt || op == OpSLe) && sext64(av, a.W) < 0
		if neg {
			return c.True
		}
		if av>>iw != 0 {
			return c.False
		}
		uop := op
		if op == OpSLt {
			uop = OpULt
		} else if op == OpSLe {
			uop = OpULe
		}
		return c.cmp(uop, c.Const(iw, av), b.A)
	}
	return c.mk(&Term{Op: op, W: 0, A: a, B: b})
}

func (c *Ctx) ULt(a, b *Term) *Term { return c.cmp(OpULt, a, b) }
func (c *Ctx) ULe(a, b *Term) *Term { return c.cmp(OpULe, a, b) }
func (c *Ctx) SLt(a, b *Term) *Term { return c.cmp(OpSLt, a, b) }
func (c *Ctx) SLe(a, b *Term) *Term { return c.cmp(OpSLe, a, b) }

func (c *Ctx) BNot(a *Term) *Term {
	if !a.IsBool() {
		panic("smt: BNot of non-bool")
	}
	if a.IsConst() {
		return c.Bool(a.Val == 0)
	}
	if a.Op == OpBNot {
		return a.A
	}
	return c.mk(&Term{Op: OpBNot, W: 0, A: a})
}

func (c *Ctx) BAnd(a, b *Term) *Term {
	if !a.IsBool() || !b.IsBool() {
		panic("smt: BAnd of non-bool")
	}
	if a.IsFalse() || b.IsFalse() {
		return c.False
	}
	if a.IsTrue() {
		return b
	}
	if b.IsTrue() {
		return a
	}
	if a == b {
		return a
	}
	if (a.Op == OpBNot && a.A == b) || (b.Op == OpBNot && b.A == a) {
		return c.False
	}
	return c.mk(&Term{Op: OpBAnd, W: 0, A: a, B: b})
}

func (c *Ctx) BOr(a, b *Term) *Term {
	if !a.IsBool() || !b.IsBool() {
		panic("smt: BOr of non-bool")
	}
	if a.IsTrue() || b.IsTrue() {
		return c.True
	}
	if a.IsFalse() {
		return b
	}
	if b.IsFalse() {
		return a
	}
	if a == b {
		return a
	}
	if (a.Op == OpBNot && a.A == b) || (b.Op == OpBNot && b.A == a) {
		return c.True
	}
	return c.mk(&Term{Op: OpBOr, W: 0, A: a, B: b})
}

func (c *Ctx) BAndN(ts ...*Term) *Term {
	r := c.True
	for _, t := range ts {
		r = c.BAnd(r, t)
	}
	return r
}

// ---------------------------------------------------------------------------
// Evaluation under a model (variable name -> value).  Missing variables are 0.

type Model map[string]uint64

func (m Model) Eval(t *Term) uint64 {
	memo := make(map[*Term]uint64)
	return m.eval(t, memo)
}

func (m Model) EvalBool(t *Term) bool { return m.Eval(t) != 0 }

func (m Model) eval(t *Term, memo map[*Term]uint64) uint64 {
	if t.Op == OpConst {
		return t.Val
	}
	if v, ok := memo[t]; ok {
		return v
	}
	var r uint64
	switch t.Op {
	case OpVar:
		r = m[t.Name] & maskB(t.W)
	case OpNot:
		r = ^m.eval(t.A, memo) & mask(t.W)
	case OpNeg:
		r = -m.eval(t.A, memo) & mask(t.W)
	case OpConcat:
		r = m.eval(t.A, memo)<<t.B.W | m.eval(t.B, memo)
	case OpExtract:
		r = (m.eval(t.A, memo) >> t.Lo) & mask(t.W)
	case OpZExt:
		r = m.eval(t.A, memo)
	case OpSExt:
		r = uint64(sext64(m.eval(t.A, memo), t.A.W)) & mask(t.W)
	case OpIte:
		if m.eval(t.C, memo) != 0 {
			r = m.eval(t.A, memo)
		} else {
			r = m.eval(t.B, memo)
		}
	case OpEq:
		r = b2u(m.eval(t.A, memo) == m.eval(t.B, memo))
	case OpULt:
		r = b2u(m.eval(t.A, memo) < m.eval(t.B, memo))
	case OpULe:
		r = b2u(m.eval(t.A, memo) <= m.eval(t.B, memo))
	case OpSLt:
		r = b2u(sext64(m.eval(t.A, memo), t.A.W) < sext64(m.eval(t.B, memo), t.B.W))
	case OpSLe:
		r = b2u(sext64(m.eval(t.A, memo), t.A.W) <= sext64(m.eval(t.B, memo), t.B.W))
	case OpBNot:
		r = b2u(m.eval(t.A, memo) == 0)
	case OpBAnd:
		r = b2u(m.eval(t.A, memo) != 0 && m.eval(t.B, memo) != 0)
	case OpBOr:
		r = b2u(m.eval(t.A, memo) != 0 || m.eval(t.B, memo) != 0)
	default:
		v, ok := evalBin(t.Op, t.W, m.eval(t.A, memo), m.eval(t.B, memo))
		if !ok {
			panic(fmt.Sprintf("smt: eval: unhandled op %d", t.Op))
		}
		r = v
	}
	memo[t] = r
	return r
}

func maskB(w uint8) uint64 {
	if w == 0 {
		return 1
	}
	return mask(w)
}

func b2u(b bool) uint64 {
	if b {
		return 1
	}
	return 0
}

// ---------------------------------------------------------------------------
// SMT-LIB2 printing with let-free DAG sharing through define-fun.

// Vars collects the variables occurring in ts.
func Vars(ts ...*Term) []*Term {
	seen := map[*Term]bool{}
	var out []*Term
	var walk func(t *Term)
	walk = func(t *Term) {
		if t == nil || seen[t] {
			return
		}
		seen[t] = true
		if t.Op == OpVar {
			out = append(out, t)
			return
		}
		walk(t.A)
		walk(t.B)
		walk(t.C)
	}
	for _, t := range ts {
		walk(t)
	}
	sort.Slice(out, func(i, j int) bool { return out[i].id < out[j].id })
	return out
}

func sortName(w uint8) string {
	if w == 0 {
		return "Bool"
	}
	return fmt.Sprintf("(_ BitVec %d)", w)
}

// Printer emits terms to a solver incrementally: shared sub-terms that were
// already defined in an enclosing scope are referred to by name.
type Printer struct {
	defined map[*Term]string
	stack   [][]*Term
	n       int
}

func NewPrinter() *Printer {
	return &Printer{defined: map[*Term]string{}, stack: [][]*Term{nil}}
}

func (p *Printer) Push() { p.stack = append(p.stack, nil) }
func (p *Printer) Pop() {
	top := p.stack[len(p.stack)-1]
	for _, t := range top {
		delete(p.defined, t)
	}
	p.stack = p.stack[:len(p.stack)-1]
}
func (p *Printer) Reset() {
	p.defined = map[*Term]string{}
	p.stack = [][]*Term{nil}
}

func (p *Printer) remember(t *Term, name string) {
	p.defined[t] = name
	p.stack[len(p.stack)-1] = append(p.stack[len(p.stack)-1], t)
}

func quoteSym(s string) string {
	return "|" + s + "|"
}

// Define writes the declarations/definitions needed for t into sb and returns
// the name (or literal) that denotes t.
func (p *Printer) Define(sb *strings.Builder, t *Term) string {
	if n, ok := p.defined[t]; ok {
		return n
	}
	switch t.Op {
	case OpConst:
		if t.W == 0 {
			if t.Val != 0 {
				return "true"
			}
			return "false"
		}
		if t.W%4 == 0 {
			return fmt.Sprintf("#x%0*x", int(t.W/4), t.Val)
		}
		return fmt.Sprintf("#b%0*b", int(t.W), t.Val)
	case OpVar:
		n := quoteSym(t.Name)
		fmt.Fprintf(sb, "(declare-const %s %s)\n", n, sortName(t.W))
		p.remember(t, n)
		return n
	}
	var a, b, c string
	if t.A != nil {
		a = p.Define(sb, t.A)
	}
	if t.B != nil {
		b = p.Define(sb, t.B)
	}
	if t.C != nil {
		c = p.Define(sb, t.C)
	}
	var body string
	switch t.Op {
	case OpNot, OpNeg, OpBNot:
		body = fmt.Sprintf("(%s %s)", opNames[t.Op], a)
	case OpExtract:
		body = fmt.Sprintf("((_ extract %d %d) %s)", t.Hi, t.Lo, a)
	case OpZExt:
		body = fmt.Sprintf("((_ zero_extend %d) %s)", t.W-t.A.W, a)
	case OpSExt:
		body = fmt.Sprintf("((_ sign_extend %d) %s)", t.W-t.A.W, a)
	case OpIte:
		body = fmt.Sprintf("(ite %s %s %s)", c, a, b)
	default:
		body = fmt.Sprintf("(%s %s %s)", opNames[t.Op], a, b)
	}
	p.n++
	name := fmt.Sprintf("t%d", p.n)
	fmt.Fprintf(sb, "(define-fun %s () %s %s)\n", name, sortName(t.W), body)
	p.remember(t, name)
	return name
}

// String renders a term for humans (no sharing).
func (t *Term) String() string {
	switch t.Op {
	case OpConst:
		if t.W == 0 {
			if t.Val != 0 {
				return "true"
			}
			return "false"
		}
		return fmt.Sprintf("%d:%d", t.Val, t.W)
	case OpVar:
		return t.Name
	case OpExtract:
		return fmt.Sprintf("%s[%d:%d]", t.A, t.Hi, t.Lo)
	case OpZExt:
		return fmt.Sprintf("zext%d(%s)", t.W, t.A)
	case OpSExt:
		return fmt.Sprintf("sext%d(%s)", t.W, t.A)
	case OpIte:
		return fmt.Sprintf("ite(%s,%s,%s)", t.C, t.A, t.B)
	case OpNot, OpNeg, OpBNot:
		return fmt.Sprintf("%s(%s)", opNames[t.Op], t.A)
	}
	return fmt.Sprintf("%s(%s,%s)", opNames[t.Op], t.A, t.B)
}
