package main

import (
	"encoding/json"
	"flag"
	"fmt"
	"os"
	"runtime/pprof"
	"sort"
	"strings"
	"time"

	"symgo/interp"
)

func cmdRun(args []string) int {
	fs := flag.NewFlagSet("run", flag.ExitOnError)
	verif := fs.String("verif", "/verif", "verification directory")
	repo := fs.String("repo", "/repo", "repository")
	sub := fs.String("pkg", "p9p", "harness package (p9p|ramfs|ufs)")
	names := fs.String("h", "", "comma-separated harness names (default: all)")
	workers := fs.Int("j", 16, "workers")
	ccap := fs.Int("ccap", 64, "concretisation cap")
	pb := fs.Int("pb", 2, "preemption bound (-1 unbounded)")
	steps := fs.Int64("steps", 2_000_000, "step budget per path")
	maxPaths := fs.Int("maxpaths", 0, "stop after N paths")
	race := fs.Bool("race", true, "race monitor")
	verbose := fs.Bool("v", false, "verbose")
	trace := fs.Bool("trace", false, "trace instructions")
	native := fs.Bool("native", false, "run path samples natively and compare observations")
	qto := fs.Duration("qto", 10*time.Second, "solver query timeout")
	jsonOut := fs.String("json", "", "write result JSON here")
	sleep := fs.Bool("sleep", true, "sleep-set reduction")
	delay := fs.Int("delay", -1, "delay bound (>= 0: delay-bounded exploration, no sleep sets)")
	goOrder := fs.Bool("goorder", false, "order scheduling alternatives like a single-P Go runtime")
	solverKind := fs.String("solver", "z3", "z3 | z3-new | cvc5")
	outcomes := fs.Bool("outcomes", false, "print the set of distinct observation tuples")
	cpuprof := fs.String("cpuprofile", "", "write CPU profile")
	fs.Parse(args)

	if *cpuprof != "" {
		f, _ := os.Create(*cpuprof)
		pprof.StartCPUProfile(f)
		defer pprof.StopCPUProfile()
	}
	cfg := interp.Config{Workers: *workers, ConcretizeCap: *ccap, PreemptionBound: *pb, MaxSteps: *steps,
		MaxConcreteAlloc: 1 << 22, MaxPaths: *maxPaths, RaceDetect: *race, QueryTimeout: *qto, Verbose: *verbose,
		Trace: *trace, KeepSamples: 2000, SleepSets: *sleep, Solver: *solverKind, DelayBound: *delay, GoOrder: *goOrder}
	e, s, err := loadEngine(*verif, *repo, []string{*sub}, cfg)
	if err != nil {
		fmt.Fprintln(os.Stderr, "load:", err)
		return 3
	}
	fmt.Printf("loaded in %v\n", e.LoadTime)
	var hs []string
	if *names == "" {
		hs = e.HarnessNames(pkgPath(*sub))
	} else {
		hs = strings.Split(*names, ",")
	}
	rc := 0
	for _, h := range hs {
		entry, err := e.Entry(pkgPath(*sub), h)
		if err != nil {
			fmt.Fprintln(os.Stderr, err)
			return 3
		}
		res := e.Explore(entry)
		printResult(res)
		if *outcomes {
			set := res.Outcomes
			var keys []string
			for k := range set {
				keys = append(keys, k)
			}
			sort.Strings(keys)
			fmt.Printf("   outcomes(%d): %s\n", len(keys), strings.Join(keys, " | "))
		}
		if *jsonOut != "" {
			b, _ := json.MarshalIndent(res, "", " ")
			os.WriteFile(*jsonOut, b, 0644)
		}
		if len(res.Violations) > 0 {
			rc = 1
		}
		if *native {
			var vecs []nativeVector
			for i, smp := range res.Samples {
				vecs = append(vecs, nativeVector{ID: i, Harness: smp.Harness, Vars: smp.Vars})
			}
			nres, err := s.runNative(*sub, e.HarnessNames(pkgPath(*sub)), vecs, *verif+"/build/native_"+h, 5*time.Second, false)
			if err != nil {
				fmt.Fprintln(os.Stderr, "native:", err)
				return 3
			}
			mismatch := 0
			for i, smp := range res.Samples {
				nr := nres[i]
				if nr == nil {
					fmt.Printf("  native: no result for sample %d\n", i)
					mismatch++
					continue
				}
				if d := diffSample(smp, nr); d != "" {
					mismatch++
					if mismatch <= 5 {
						fmt.Printf("  MISMATCH sample %d: %s\n    vars=%v\n", i, d, smp.Vars)
					}
				}
			}
			fmt.Printf("  native differential: %d samples, %d mismatches\n", len(res.Samples), mismatch)
		}
	}
	return rc
}

// diffSample compares an engine path sample with its native replay.
func diffSample(smp interp.PathSample, nr *nativeResult) string {
	wantStatus := "done"
	if smp.Status == "violation" {
		wantStatus = "" // any failing status
	}
	if len(nr.Missing) > 0 {
		return fmt.Sprintf("native run consumed variables the engine did not create: %v", nr.Missing)
	}
	if wantStatus == "done" && nr.Status != "done" {
		return fmt.Sprintf("engine path completed, native status %s (%s)", nr.Status, nr.Detail)
	}
	if wantStatus == "" {
		if nr.Status == "done" {
			return "engine path violated, native run completed"
		}
		// observations up to the failure point must be a prefix
		for i, o := range nr.Obs {
			if i < len(smp.Obs) && smp.Obs[i] != o {
				return fmt.Sprintf("obs[%d]: engine %s native %s", i, smp.Obs[i], o)
			}
		}
		return ""
	}
	if len(smp.Obs) != len(nr.Obs) {
		return fmt.Sprintf("observation count: engine %d native %d\n      engine=%v\n      native=%v", len(smp.Obs), len(nr.Obs), smp.Obs, nr.Obs)
	}
	for i := range smp.Obs {
		if smp.Obs[i] != nr.Obs[i] {
			return fmt.Sprintf("obs[%d]: engine %s native %s", i, smp.Obs[i], nr.Obs[i])
		}
	}
	a := append([]string(nil), smp.Labels...)
	b := append([]string(nil), nr.Reach...)
	sort.Strings(a)
	b = uniq(b)
	if strings.Join(a, ",") != strings.Join(b, ",") {
		return fmt.Sprintf("reach labels: engine %v native %v", a, b)
	}
	return ""
}

func uniq(xs []string) []string {
	sort.Strings(xs)
	var out []string
	for i, x := range xs {
		if i == 0 || xs[i-1] != x {
			out = append(out, x)
		}
	}
	return out
}

func printResult(res *interp.RunResult) {
	fmt.Printf("== %s: %d paths %v  forks=%d steps=%d (max %d) asserts=%d discharged=%d queries=%d (sat %d unsat %d unk %d) solver=%v wall=%v goroutines<=%d\n",
		res.Harness, res.Paths, res.Status, res.Forks, res.Steps, res.MaxSteps, res.Asserts, res.Discharged,
		res.Solver.Queries, res.Solver.Sat, res.Solver.Unsat, res.Solver.Unknown, res.Solver.Time.Round(time.Millisecond), res.Wall.Round(time.Millisecond), res.MaxGoroutines)
	var ls []string
	for l, n := range res.Reach {
		ls = append(ls, fmt.Sprintf("%s:%d", l, n))
	}
	sort.Strings(ls)
	fmt.Printf("   reach: %s\n", strings.Join(ls, " "))
	if len(res.Unknowns) > 0 {
		fmt.Printf("   unknowns: %v\n", res.Unknowns)
	}
	for _, s := range res.SolverErrors {
		fmt.Printf("   solver error: %s\n", s)
	}
	for _, s := range res.EngineErrors {
		fmt.Printf("   ENGINE ERROR: %s\n", s)
	}
	seen := map[string]bool{}
	for _, s := range res.Inconclusive {
		if !seen[s] {
			seen[s] = true
			fmt.Printf("   inconclusive: %s\n", s)
		}
	}
	for _, v := range res.Violations {
		fmt.Printf("   VIOLATION[%s] %s @ %s\n      model=%v\n", v.Kind, v.Label, v.Site, v.Model)
		if v.Extra != "" {
			fmt.Printf("      %s\n", v.Extra)
		}
	}
}
