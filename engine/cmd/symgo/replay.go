package main

import (
	"encoding/json"
	"flag"
	"fmt"
	"os"
	"path/filepath"
	"time"
)

// cmdReplay runs a counterexample vector natively against the repository's
// current tree and prints what happened.
func cmdReplay(args []string) int {
	fs := flag.NewFlagSet("replay", flag.ExitOnError)
	verif := fs.String("verif", "/verif", "verification directory")
	repo := fs.String("repo", "/repo", "repository")
	sub := fs.String("pkg", "p9p", "harness package")
	vecPath := fs.String("vector", "", "vector.json")
	race := fs.Bool("race", false, "build with -race")
	fs.Parse(args)
	raw, err := os.ReadFile(*vecPath)
	if err != nil {
		fmt.Fprintln(os.Stderr, err)
		return 2
	}
	var vecs []nativeVector
	if err := json.Unmarshal(raw, &vecs); err != nil {
		fmt.Fprintln(os.Stderr, err)
		return 2
	}
	s, _, err := buildOverlay(*verif, *repo, []string{*sub})
	if err != nil {
		fmt.Fprintln(os.Stderr, err)
		return 2
	}
	// harness names: every func Verif* in the harness dir
	names := harnessNamesFromSource(filepath.Join(*verif, "harness", *sub))
	work, _ := os.MkdirTemp("", "symgo-replay-")
	defer os.RemoveAll(work)
	res, err := s.runNative(*sub, names, vecs, work, 10*time.Second, *race)
	if err != nil {
		fmt.Fprintln(os.Stderr, err)
		return 2
	}
	rc := 0
	for _, v := range vecs {
		r := res[v.ID]
		if r == nil {
			fmt.Printf("vector %d: no result\n", v.ID)
			continue
		}
		fmt.Printf("vector %d harness=%s status=%s detail=%s\n", v.ID, r.Harness, r.Status, r.Detail)
		for _, o := range r.Obs {
			fmt.Printf("   obs %s\n", o)
		}
		if r.Status != "done" && r.Status != "assume" {
			rc = 1
		}
	}
	return rc
}
