// Command symgo drives the symbolic engine: `symgo run` explores harnesses and
// prints a summary (development), `symgo check` runs a registered property
// check end to end (exploration, native replay, differential, evidence).
package main

import (
	"flag"
	"fmt"
	"os"
)

func main() {
	if len(os.Args) < 2 {
		fmt.Fprintln(os.Stderr, "usage: symgo run|check|litmus ...")
		os.Exit(2)
	}
	switch os.Args[1] {
	case "run":
		os.Exit(cmdRun(os.Args[2:]))
	case "check":
		os.Exit(cmdCheck(os.Args[2:]))
	case "replay":
		os.Exit(cmdReplay(os.Args[2:]))
	default:
		flag.Usage()
		os.Exit(2)
	}
}
