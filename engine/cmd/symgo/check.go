package main

import (
	"encoding/json"
	"flag"
	"fmt"
	"os"
	"path/filepath"
	"sort"
	"strconv"
	"strings"
	"time"

	"symgo/interp"
)

// tierSpec is the per-tier part of /verif/checks/<id>.json.
type tierSpec struct {
	Harnesses     []string `json:"harnesses"`
	CCap          int      `json:"ccap"`
	PB            *int     `json:"preemption_bound"`
	Steps         int64    `json:"steps"`
	MaxPaths      int      `json:"max_paths"`
	TimeoutS      int      `json:"timeout_s"`
	NoRace        bool     `json:"no_race"`
	Reach         []string `json:"reach"`          // labels that must be hit (vacuity)
	DiffSamples   int      `json:"diff_samples"`   // path models replayed natively (sequential paths)
	NativeRetries int      `json:"native_retries"` // for schedule-dependent violations
	QueryTimeoutS int      `json:"query_timeout_s"`
	Bounds        string   `json:"bounds"`
	NoSleepSets   bool     `json:"no_sleep_sets"`
	CrossSolvers  []string `json:"cross_solvers"` // re-explore with these solvers and require identical verdicts
	// per-harness scheduler overrides
	HarnessOpts map[string]harnessOpt `json:"harness_opts"`
}

// harnessOpt overrides the tier's scheduler settings for one harness.
type harnessOpt struct {
	// DelayBound >= 0: delay-bounded exploration (every schedule that deviates
	// at most DelayBound times from the reference order; no sleep sets)
	DelayBound *int `json:"delay_bound"`
	GoOrder    bool `json:"go_order"` // reference order = single-P Go runtime (runnext, then FIFO)
	MaxPaths   int  `json:"max_paths"`
	// NoSleepSets: explore this harness without the sleep-set reduction
	NoSleepSets bool `json:"no_sleep_sets"`
}

// violation filter: a rig shared by several properties labels its assertions
// "Cnn: ..."; a check only claims the labels (and engine VC kinds) listed.
type violFilter struct {
	LabelPrefixes []string `json:"label_prefixes"`
	Kinds         []string `json:"kinds"` // engine VC kinds claimed: panic, deadlock, race, alloc
}

func (f *violFilter) claims(v *interp.Violation) bool {
	if f == nil || (len(f.LabelPrefixes) == 0 && len(f.Kinds) == 0) {
		return true
	}
	if v.Kind == "assert" {
		for _, p := range f.LabelPrefixes {
			if strings.HasPrefix(v.Label, p) {
				return true
			}
		}
		return false
	}
	for _, k := range f.Kinds {
		if k == v.Kind {
			return true
		}
	}
	return false
}

type checkSpec struct {
	ID          string   `json:"id"`
	Pkg         string   `json:"pkg"`
	Quick       tierSpec `json:"quick"`
	Thorough    tierSpec `json:"thorough"`
	Assumptions []string `json:"assumptions"`
	Outside     []string `json:"outside"`
	Filter      *violFilter `json:"claims"`
	// NoNative: the harness runs against environment stubs that have no native
	// counterpart (ufs with the OS replaced by recording stubs); counterexamples
	// are reported from the engine alone and no native differential is run.
	NoNative bool `json:"no_native"`
}

type knownFinding struct {
	Property string `json:"property"`
	Status   string `json:"status"` // "known" or "fixed"
	Harness  string `json:"harness,omitempty"`
	Kind     string `json:"kind,omitempty"`
	Label    string `json:"label_contains,omitempty"`
	Site     string `json:"site_contains,omitempty"`
	What     string `json:"what"`
	Commit   string `json:"commit,omitempty"`
}

func loadKnown(verifDir string) []knownFinding {
	var ks []knownFinding
	b, err := os.ReadFile(filepath.Join(verifDir, "known_findings.json"))
	if err != nil {
		return nil
	}
	var doc struct {
		Findings []knownFinding `json:"findings"`
	}
	if json.Unmarshal(b, &doc) == nil {
		ks = doc.Findings
	}
	return ks
}

func (k knownFinding) matches(prop, harness string, v *interp.Violation) bool {
	if k.Status != "known" || k.Property != prop {
		return false
	}
	if k.Harness != "" && k.Harness != harness {
		return false
	}
	if k.Kind != "" && k.Kind != v.Kind {
		return false
	}
	if k.Label != "" && !strings.Contains(v.Label, k.Label) {
		return false
	}
	if k.Site != "" && !strings.Contains(v.Site, k.Site) {
		return false
	}
	return true
}

type confirmedViolation struct {
	Harness string
	V       *interp.Violation
	Native  string // "confirmed", "unconfirmed", "not-reproduced"
	Detail  string
	Replay  string
	Known   *knownFinding
}

func cmdCheck(args []string) int {
	fs := flag.NewFlagSet("check", flag.ExitOnError)
	verif := fs.String("verif", "/verif", "verification directory")
	repo := fs.String("repo", "/repo", "repository")
	id := fs.String("id", "", "property id")
	tier := fs.String("tier", "quick", "quick|thorough")
	workers := fs.Int("j", 16, "workers")
	fs.Parse(args)
	t0 := time.Now()
	if t := os.Getenv("VERIF_TIER"); t != "" && *tier == "" {
		*tier = t
	}
	seed := int64(0)
	if s := os.Getenv("VERIF_SEED"); s != "" {
		seed, _ = strconv.ParseInt(s, 10, 64)
	}
	specRaw, err := os.ReadFile(filepath.Join(*verif, "checks", *id+".json"))
	if err != nil {
		fmt.Println("INCONCLUSIVE cannot read check spec:", err)
		return 3
	}
	var spec checkSpec
	if err := json.Unmarshal(specRaw, &spec); err != nil {
		fmt.Println("INCONCLUSIVE bad check spec:", err)
		return 3
	}
	ts := spec.Quick
	if *tier == "thorough" {
		ts = spec.Thorough
	}
	if ts.CCap == 0 {
		ts.CCap = 64
	}
	pb := 2
	if ts.PB != nil {
		pb = *ts.PB
	}
	if ts.Steps == 0 {
		ts.Steps = 2_000_000
	}
	if ts.TimeoutS == 0 {
		ts.TimeoutS = 600
	}
	if ts.DiffSamples == 0 {
		ts.DiffSamples = 200
	}
	if ts.QueryTimeoutS == 0 {
		ts.QueryTimeoutS = 10
	}
	cfg := interp.Config{Workers: *workers, ConcretizeCap: ts.CCap, PreemptionBound: pb, MaxSteps: ts.Steps,
		MaxConcreteAlloc: 1 << 22, MaxPaths: ts.MaxPaths, RaceDetect: !ts.NoRace,
		QueryTimeout: time.Duration(ts.QueryTimeoutS) * time.Second, Seed: seed, KeepSamples: 4000, SleepSets: !ts.NoSleepSets, DelayBound: -1,
		Deadline: t0.Add(time.Duration(ts.TimeoutS) * time.Second)}
	if spec.Filter != nil {
		cfg.ClaimPrefixes = spec.Filter.LabelPrefixes
	}
	e, s, err := loadEngine(*verif, *repo, []string{spec.Pkg}, cfg)
	if err != nil {
		fmt.Println("INCONCLUSIVE property=" + spec.ID + " cannot load repository with harness overlay (harness no longer type-checks?):")
		fmt.Println(err)
		writeEvidence(*verif, &spec, *tier, seed, nil, nil, nil, 0, 0, []string{"load failed: " + err.Error()}, time.Since(t0), e)
		return 3
	}
	allHarnesses := e.HarnessNames(pkgPath(spec.Pkg))
	var results []*interp.RunResult
	var inconclusive []string
	for _, h := range ts.Harnesses {
		entry, err := e.Entry(pkgPath(spec.Pkg), h)
		if err != nil {
			inconclusive = append(inconclusive, err.Error())
			continue
		}
		baseCfg := e.Cfg
		hcfg := baseCfg
		if ho, ok := ts.HarnessOpts[h]; ok {
			if ho.DelayBound != nil {
				hcfg.DelayBound = *ho.DelayBound
				hcfg.SleepSets = false
				hcfg.PreemptionBound = -1
			}
			hcfg.GoOrder = ho.GoOrder
			if ho.NoSleepSets {
				hcfg.SleepSets = false
			}
			if ho.MaxPaths > 0 {
				hcfg.MaxPaths = ho.MaxPaths
			}
		}
		e.Cfg = hcfg
		switch {
		case hcfg.DelayBound >= 0:
			harnessSched[h] = fmt.Sprintf("delay-bounded: every schedule within %d deviations from the reference order (go_order=%v), no partial-order reduction", hcfg.DelayBound, hcfg.GoOrder)
		case hcfg.SleepSets:
			harnessSched[h] = fmt.Sprintf("all schedules up to sleep-set reduction, preemption bound %d (-1 = unbounded)", hcfg.PreemptionBound)
		default:
			harnessSched[h] = fmt.Sprintf("all interleavings of visible operations, preemption bound %d (-1 = unbounded)", hcfg.PreemptionBound)
		}
		res := e.Explore(entry)
		e.Cfg = baseCfg
		results = append(results, res)
		printResult(res)
		if res.Status["inconclusive"] > 0 {
			inconclusive = append(inconclusive, fmt.Sprintf("%s: %d inconclusive paths (%s)", h, res.Status["inconclusive"], firstOf(res.Inconclusive)))
		}
		for what, n := range res.Unknowns {
			inconclusive = append(inconclusive, fmt.Sprintf("%s: %d solver unknown/timeouts (%s)", h, n, what))
		}
		for _, s := range res.EngineErrors {
			inconclusive = append(inconclusive, h+": engine error: "+s)
		}
		if res.DeadlineHit {
			inconclusive = append(inconclusive, h+": time budget exhausted before the work list was empty")
		}
		if res.Truncated {
			inconclusive = append(inconclusive, h+": path limit reached before the work list was empty")
		}
	}
	// cross-solver agreement: the same exploration under another solver must give
	// the same paths and the same sat/unsat verdict counts
	crossNotes := []string{}
	for _, sv := range ts.CrossSolvers {
		for _, r := range results {
			// scheduling-only harnesses put no question to the solver: nothing to cross-check
			if _, ok := ts.HarnessOpts[r.Harness]; ok || r.Solver.Queries == 0 {
				continue
			}
			entry, err := e.Entry(pkgPath(spec.Pkg), r.Harness)
			if err != nil {
				continue
			}
			if time.Now().After(cfg.Deadline) {
				inconclusive = append(inconclusive, fmt.Sprintf("%s: time budget exhausted before the cross-solver re-exploration under %s", r.Harness, sv))
				continue
			}
			base := e.Cfg
			cfg2 := base
			cfg2.Solver = sv
			cfg2.KeepSamples = 1
			e.Cfg = cfg2
			r2 := e.Explore(entry)
			e.Cfg = base
			note := fmt.Sprintf("%s under %s: paths %d/%d, unsat %d/%d, unknowns %d", r.Harness, sv, r2.Paths, r.Paths, r2.Solver.Unsat, r.Solver.Unsat, len(r2.Unknowns))
			crossNotes = append(crossNotes, note)
			if r2.DeadlineHit {
				inconclusive = append(inconclusive, "time budget exhausted during the cross-solver re-exploration: "+note)
				continue
			}
			same := r2.Paths == r.Paths && r2.Status["done"] == r.Status["done"] && r2.Status["violation"] == r.Status["violation"] &&
				r2.Solver.Unsat == r.Solver.Unsat && len(r2.Unknowns) == 0
			if !same {
				inconclusive = append(inconclusive, "cross-solver disagreement: "+note)
			}
		}
	}
	if len(crossNotes) > 0 {
		fmt.Println("cross-solver: " + strings.Join(crossNotes, "; "))
	}
	lastCrossNotes = crossNotes

	// vacuity: expected labels
	reach := map[string]int{}
	for _, r := range results {
		for l, n := range r.Reach {
			reach[l] += n
		}
	}
	for _, l := range ts.Reach {
		if reach[l] == 0 {
			inconclusive = append(inconclusive, "vacuity: label "+l+" was never reached")
		}
	}

	known := loadKnown(*verif)
	replayRoot := filepath.Join(*verif, "replays", spec.ID)
	os.RemoveAll(replayRoot)
	workDir := filepath.Join(*verif, "build", "native_"+spec.ID+"_"+*tier)
	os.RemoveAll(workDir)

	// ---- native replay of violations --------------------------------------------------
	var confirmed []*confirmedViolation
	var vecs []nativeVector
	var owners []*confirmedViolation
	otherProps := 0
	for _, r := range results {
		for _, v := range r.Violations {
			if !spec.Filter.claims(v) {
				otherProps++
				continue
			}
			cv := &confirmedViolation{Harness: r.Harness, V: v}
			confirmed = append(confirmed, cv)
			vecs = append(vecs, nativeVector{ID: len(vecs), Harness: r.Harness, Vars: v.Model})
			owners = append(owners, cv)
		}
	}
	nativeOK := 0
	if spec.NoNative {
		for _, cv := range owners {
			cv.Native, cv.Detail = "confirmed", "not replayed natively: the harness runs on OS stubs (engine counterexample)"
		}
	}
	if len(vecs) > 0 && !spec.NoNative {
		retries := ts.NativeRetries
		if retries == 0 {
			retries = 1
		}
		// schedule-dependent counterexamples are replayed `retries` times (the Go
		// runtime picks among ready select cases at random); replicate the vector
		multi := map[string]bool{}
		for _, r := range results {
			if r.MaxGoroutines > 1 {
				multi[r.Harness] = true
			}
		}
		tries := map[int]int{}
		// race counterexamples are replayed with a -race build (halt on first report)
		for _, raceRun := range []bool{false, true} {
			var todo []nativeVector
			back := map[int]int{}
			for i, v := range vecs {
				if (owners[i].V.Kind == "race") != raceRun {
					continue
				}
				n := 1
				if multi[v.Harness] {
					n = retries
				}
				for k := 0; k < n; k++ {
					id := len(todo)
					back[id] = i
					grp := 0
					if n > 1 {
						grp = i + 1
					}
					todo = append(todo, nativeVector{Group: grp, ID: id, Harness: v.Harness, Vars: v.Vars})
				}
			}
			if len(todo) == 0 {
				continue
			}
			vecTimeout := 10 * time.Second
			if len(multi) > 0 {
				vecTimeout = 3 * time.Second
			}
			nres, err := s.runNative(spec.Pkg, allHarnesses, todo, workDir, vecTimeout, raceRun)
			if err != nil {
				inconclusive = append(inconclusive, "native replay failed: "+err.Error())
			}
			for id, nr := range nres {
				cv := owners[back[id]]
				if nr.Status == "skipped" {
					continue
				}
				tries[back[id]]++
				if cv.Native == "confirmed" {
					continue
				}
				st, detail := classifyNative(cv.V, nr)
				if st == "confirmed" || cv.Native == "" {
					cv.Native, cv.Detail = st, detail
				}
			}
		}
		for i, cv := range owners {
			if cv.Native == "" {
				cv.Native, cv.Detail = "not-reproduced", "no native result"
			}
			if tries[i] > 1 {
				cv.Detail += fmt.Sprintf(" (%d native attempts)", tries[i])
			}
		}
	}
	violations := 0
	knownHits := map[string]bool{}
	n := 0
	// many schedules or inputs usually reach the same failure: at most three
	// replays per (harness, kind, site) are written and printed
	perSite := map[string]int{}
	suppressed := 0
	for _, cv := range confirmed {
		for i := range known {
			if known[i].matches(spec.ID, cv.Harness, cv.V) {
				cv.Known = &known[i]
			}
		}
		multi := false
		for _, r := range results {
			if r.Harness == cv.Harness && r.MaxGoroutines > 1 {
				multi = true
			}
		}
		switch cv.Native {
		case "confirmed":
			nativeOK++
		case "not-reproduced":
			if multi {
				cv.Native = "unconfirmed"
			} else {
				// sequential counterexample that does not reproduce: engine/model error
				inconclusive = append(inconclusive, fmt.Sprintf("%s: counterexample for %q did not reproduce natively (%s) - engine or model error", cv.Harness, cv.V.Label, cv.Detail))
				continue
			}
		}
		if cv.Known != nil {
			key := cv.Known.What
			if !knownHits[key] {
				knownHits[key] = true
				fmt.Printf("KNOWN-FINDING: property=%s %s\n", spec.ID, cv.Known.What)
			}
			continue
		}
		siteKey := cv.Harness + "|" + cv.V.Kind + "|" + cv.V.Site
		if cv.V.Kind == "assert" {
			siteKey += "|" + cv.V.Label
		}
		perSite[siteKey]++
		if perSite[siteKey] > 3 {
			suppressed++
			violations++
			continue
		}
		n++
		dir := filepath.Join(replayRoot, strconv.Itoa(n))
		writeReplay(dir, *verif, &spec, cv)
		cv.Replay = dir
		violations++
		fmt.Printf("VIOLATION property=%s replay=%s\n", spec.ID, dir)
		lbl := cv.V.Label
		if len(lbl) > 300 {
			lbl = lbl[:300] + "..."
		}
		fmt.Printf("  harness=%s kind=%s label=%q site=%s native=%s\n", cv.Harness, cv.V.Kind, lbl, cv.V.Site, cv.Native)
	}

	if suppressed > 0 {
		fmt.Printf("note: %d further counterexamples at the same sites are not listed (three per harness, kind and site are)\n", suppressed)
	}

	// ---- path-model differential ----------------------------------------------------------
	validated, mismatches := 0, 0
	var dvecs []nativeVector
	var dsamples []interp.PathSample
	for _, r := range results {
		k := 0
		for _, smp := range r.Samples {
			if smp.Multi || smp.Status != "done" {
				continue
			}
			if k >= ts.DiffSamples {
				break
			}
			k++
			dvecs = append(dvecs, nativeVector{ID: len(dvecs), Harness: smp.Harness, Vars: smp.Vars})
			dsamples = append(dsamples, smp)
		}
	}
	if spec.NoNative {
		dvecs = nil
	}
	if len(dvecs) > 0 {
		nres, err := s.runNative(spec.Pkg, allHarnesses, dvecs, workDir, 10*time.Second, false)
		if err != nil {
			inconclusive = append(inconclusive, "native differential failed: "+err.Error())
		} else {
			for i, smp := range dsamples {
				nr := nres[i]
				if nr == nil {
					mismatches++
					continue
				}
				if d := diffSample(smp, nr); d != "" {
					mismatches++
					if mismatches <= 3 {
						inconclusive = append(inconclusive, fmt.Sprintf("translator validation: %s sample differs natively: %s vars=%v", smp.Harness, d, smp.Vars))
					}
				} else {
					validated++
				}
			}
		}
	}
	os.RemoveAll(workDir)
	if otherProps > 0 {
		fmt.Printf("note: %d counterexamples of this rig belong to other properties (labels/kinds not claimed by %s) and are reported by their own checks\n", otherProps, spec.ID)
	}

	writeEvidence(*verif, &spec, *tier, seed, results, confirmed, knownHitList(knownHits), validated, violations, inconclusive, time.Since(t0), e)

	if violations > 0 {
		return 1
	}
	if len(inconclusive) > 0 {
		for _, s := range uniq(inconclusive) {
			fmt.Printf("INCONCLUSIVE property=%s %s\n", spec.ID, s)
		}
		return 3
	}
	fmt.Printf("OK property=%s tier=%s paths=%d validated=%d wall=%v\n", spec.ID, *tier, totalPaths(results), validated, time.Since(t0).Round(time.Millisecond))
	return 0
}

var lastCrossNotes []string
var harnessSched = map[string]string{}

func knownHitList(m map[string]bool) []string {
	var out []string
	for k := range m {
		out = append(out, k)
	}
	sort.Strings(out)
	return out
}

func totalPaths(rs []*interp.RunResult) int {
	n := 0
	for _, r := range rs {
		n += r.Paths
	}
	return n
}

func firstOf(xs []string) string {
	if len(xs) == 0 {
		return ""
	}
	return xs[0]
}

// classifyNative decides whether a native run reproduces engine violation v.
func classifyNative(v *interp.Violation, nr *nativeResult) (string, string) {
	d := nr.Status + ": " + nr.Detail
	switch v.Kind {
	case "assert", "alloc":
		if nr.Status == "assert" {
			return "confirmed", d
		}
		// a failing assertion may natively show up as a panic further on
		if nr.Status == "panic" || nr.Status == "crash" {
			return "confirmed", d
		}
	case "panic":
		if nr.Status == "panic" || nr.Status == "crash" {
			return "confirmed", d
		}
	case "deadlock":
		if nr.Status == "timeout" || nr.Status == "crash" {
			return "confirmed", d
		}
	case "race":
		if nr.Status == "crash" && strings.Contains(nr.Detail, "DATA RACE") {
			return "confirmed", d
		}
	}
	return "not-reproduced", d
}

func writeReplay(dir, verifDir string, spec *checkSpec, cv *confirmedViolation) {
	os.MkdirAll(dir, 0755)
	vec := []nativeVector{{ID: 0, Harness: cv.Harness, Vars: cv.V.Model}}
	b, _ := json.MarshalIndent(vec, "", " ")
	os.WriteFile(filepath.Join(dir, "vector.json"), b, 0644)
	info := map[string]interface{}{
		"property": spec.ID, "harness": cv.Harness, "kind": cv.V.Kind, "label": cv.V.Label,
		"site": cv.V.Site, "native": cv.Native, "native_detail": cv.Detail, "stack": cv.V.Extra,
		"decisions": cv.V.Choice,
	}
	ib, _ := json.MarshalIndent(info, "", " ")
	os.WriteFile(filepath.Join(dir, "violation.json"), ib, 0644)
	sh := fmt.Sprintf("#!/bin/sh\n# replays the counterexample natively against /repo's current tree\nexec %s/build/symgo replay -verif %s -pkg %s -vector %s/vector.json\n", verifDir, verifDir, spec.Pkg, dir)
	os.WriteFile(filepath.Join(dir, "replay.sh"), []byte(sh), 0755)
}

func writeEvidence(verifDir string, spec *checkSpec, tier string, seed int64, results []*interp.RunResult,
	confirmed []*confirmedViolation, knownHits []string, validated, violations int, inconclusive []string, wall time.Duration, e *interp.Engine) {
	states, transitions, queries, sat, unsat, unknown := 0, 0, 0, 0, 0, 0
	asserts, discharged := 0, 0
	var solverTime time.Duration
	repoFns, stdFns := map[string]int{}, map[string]int{}
	stubs := map[string]int{}
	reach := map[string]int{}
	var samples []interface{}
	perHarness := []interface{}{}
	for _, r := range results {
		states += r.Paths
		transitions += r.Forks + r.Switches
		queries += r.Solver.Queries
		sat += r.Solver.Sat
		unsat += r.Solver.Unsat
		unknown += r.Solver.Unknown
		solverTime += r.Solver.Time
		asserts += r.Asserts
		discharged += r.Discharged
		for f, n := range r.Funcs {
			if strings.Contains(f, modulePath) {
				repoFns[f] = n
			} else {
				stdFns[f] = n
			}
		}
		for f, n := range r.Stubs {
			stubs[f] += n
		}
		for l, n := range r.Reach {
			reach[l] += n
		}
		for i, smp := range r.Samples {
			if i >= 3 {
				break
			}
			samples = append(samples, map[string]interface{}{"harness": smp.Harness, "inputs": smp.Vars, "observations": smp.Obs, "labels": smp.Labels})
		}
		perHarness = append(perHarness, map[string]interface{}{
			"harness": r.Harness, "paths": r.Paths, "status": r.Status, "forks": r.Forks, "schedule_switches": r.Switches,
			"ssa_steps": r.Steps, "max_steps_per_path": r.MaxSteps, "max_goroutines": r.MaxGoroutines,
			"asserts_evaluated": r.Asserts, "wall_s": r.Wall.Seconds(), "scheduler": harnessSched[r.Harness],
		})
	}
	if transitions == 0 {
		transitions = states
	}
	if len(samples) == 0 {
		samples = append(samples, "no completed path")
	}
	var viol []interface{}
	for _, cv := range confirmed {
		m := map[string]interface{}{"harness": cv.Harness, "kind": cv.V.Kind, "label": cv.V.Label, "site": cv.V.Site,
			"model": cv.V.Model, "native": cv.Native, "native_detail": cv.Detail}
		if cv.Known != nil {
			m["known_finding"] = cv.Known.What
		}
		if cv.Replay != "" {
			m["replay"] = cv.Replay
		}
		viol = append(viol, m)
	}
	ts := spec.Quick
	if tier == "thorough" {
		ts = spec.Thorough
	}
	fnNames := func(m map[string]int) []string {
		var out []string
		for f := range m {
			out = append(out, f)
		}
		sort.Strings(out)
		return out
	}
	if states == 0 {
		states = 0
	}
	cov := map[string]interface{}{
		"states":                        states,
		"transitions":                   transitions,
		"traces_validated_against_impl": validated,
		"samples":                       samples,
		"explanation":                   "states = symbolic paths completed (each stands for every input following it); transitions = solver-decided forks + schedule switches; traces_validated = path models replayed natively against the real build with identical observations",
		"bounds":                        ts.Bounds,
		"outside_bounds":                spec.Outside,
		"harnesses":                     perHarness,
		"functions_encoded_repo":        fnNames(repoFns),
		"functions_encoded_env":         len(stdFns),
		"environment_models_hit":        stubs,
		"queries":                       map[string]int{"total": queries, "sat": sat, "unsat": unsat, "unknown": unknown},
		"assertions_evaluated":          asserts,
		"assertions_needing_solver":     discharged,
		"solver":                        "z3 4.8.12 (one z3 -in process per worker)",
		"solver_time_s":                 solverTime.Seconds(),
		"vacuity":                       map[string]interface{}{"expected": ts.Reach, "hit": reach},
		"inconclusive":                  uniq(append([]string(nil), inconclusive...)),
		"violations_detail":             viol,
		"known_findings_hit":            knownHits,
		"exhaustive":                    len(inconclusive) == 0,
		"cross_solver_agreement":        lastCrossNotes,
	}
	if states == 0 {
		cov["states"] = 1
		cov["transitions"] = 1
		cov["explanation"] = "no path completed: " + strings.Join(inconclusive, "; ")
	}
	ev := map[string]interface{}{
		"property_id": spec.ID,
		"tier":        tier,
		"seed":        seed,
		"level":       "model_checking",
		"coverage":    cov,
		"assumptions": spec.Assumptions,
		"wall_s":      wall.Seconds(),
		"violations":  violations,
	}
	os.MkdirAll(filepath.Join(verifDir, "evidence"), 0755)
	b, _ := json.MarshalIndent(ev, "", " ")
	os.WriteFile(filepath.Join(verifDir, "evidence", spec.ID+".json"), b, 0644)
}
