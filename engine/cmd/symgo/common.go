package main

import (
	"bytes"
	"encoding/json"
	"fmt"
	"os"
	"os/exec"
	"path/filepath"
	"sort"
	"strings"
	"time"

	"symgo/interp"
)

const modulePath = "github.com/frobnitzem/go-p9p"

// pkgDirs maps harness sub-directories to repository package directories.
var pkgDirs = map[string]string{
	"p9p":   ".",
	"ramfs": "ramfs",
	"ufs":   "ufs",
}

var pkgNames = map[string]string{"p9p": "p9p", "ramfs": "ramfs", "ufs": "ufs"}

func pkgPath(sub string) string {
	if pkgDirs[sub] == "." {
		return modulePath
	}
	return modulePath + "/" + pkgDirs[sub]
}

type setup struct {
	verifDir string
	repoDir  string
	// virtual path -> real path (for go test -overlay) and content (for packages.Load)
	files map[string]string
}

// buildOverlay maps /verif/harness/<sub>/*.go into the repository packages.
func buildOverlay(verifDir, repoDir string, subs []string) (*setup, map[string][]byte, error) {
	s := &setup{verifDir: verifDir, repoDir: repoDir, files: map[string]string{}}
	ov := map[string][]byte{}
	gen := filepath.Join(verifDir, "build", "gen")
	if err := os.MkdirAll(gen, 0755); err != nil {
		return nil, nil, err
	}
	tmpl, err := os.ReadFile(filepath.Join(verifDir, "harness", "common", "api.go.tmpl"))
	if err != nil {
		return nil, nil, err
	}
	for _, sub := range subs {
		dir := filepath.Join(verifDir, "harness", sub)
		ents, err := os.ReadDir(dir)
		if err != nil {
			return nil, nil, err
		}
		target := filepath.Join(repoDir, pkgDirs[sub])
		for _, e := range ents {
			if !strings.HasSuffix(e.Name(), ".go") {
				continue
			}
			real := filepath.Join(dir, e.Name())
			virt := filepath.Join(target, "zz_verif_"+e.Name())
			b, err := os.ReadFile(real)
			if err != nil {
				return nil, nil, err
			}
			ov[virt] = b
			s.files[virt] = real
		}
		api := bytes.ReplaceAll(tmpl, []byte("PKGNAME"), []byte(pkgNames[sub]))
		apiReal := filepath.Join(gen, sub+"_api.go")
		if err := os.WriteFile(apiReal, api, 0644); err != nil {
			return nil, nil, err
		}
		virt := filepath.Join(target, "zz_verif_api.go")
		ov[virt] = api
		s.files[virt] = apiReal
	}
	return s, ov, nil
}

type nativeVector struct {
	Group   int               `json:"group"`
	ID      int               `json:"id"`
	Harness string            `json:"harness"`
	Vars    map[string]uint64 `json:"vars"`
}

type nativeResult struct {
	ID      int      `json:"id"`
	Harness string   `json:"harness"`
	Status  string   `json:"status"`
	Detail  string   `json:"detail"`
	Obs     []string `json:"obs"`
	Reach   []string `json:"reach"`
	Missing []string `json:"missing"`
	Start   *int     `json:"start,omitempty"`
	Crash   string   `json:"-"`
}

// runNative compiles the harnesses into the real package (go test -overlay) and
// runs the vectors.  A crashed process is attributed to the vector that had
// started; the remaining vectors are re-run.
func (s *setup) runNative(sub string, harnesses []string, vecs []nativeVector, workDir string, timeout time.Duration, race bool) (map[int]*nativeResult, error) {
	out := map[int]*nativeResult{}
	if len(vecs) == 0 {
		return out, nil
	}
	if err := os.MkdirAll(workDir, 0755); err != nil {
		return nil, err
	}
	// runner test file
	tmpl, err := os.ReadFile(filepath.Join(s.verifDir, "harness", "common", "runner_test.go.tmpl"))
	if err != nil {
		return nil, err
	}
	var tbl strings.Builder
	sort.Strings(harnesses)
	for _, h := range harnesses {
		fmt.Fprintf(&tbl, "\t%q: %s,\n", h, h)
	}
	runner := bytes.ReplaceAll(tmpl, []byte("PKGNAME"), []byte(pkgNames[sub]))
	runner = bytes.ReplaceAll(runner, []byte("HARNESS_TABLE"), []byte(tbl.String()))
	runnerReal := filepath.Join(workDir, "runner_test.go")
	if err := os.WriteFile(runnerReal, runner, 0644); err != nil {
		return nil, err
	}
	target := filepath.Join(s.repoDir, pkgDirs[sub])
	repl := map[string]string{}
	for v, r := range s.files {
		if filepath.Dir(v) == filepath.Clean(target) {
			repl[v] = r
		}
	}
	repl[filepath.Join(target, "zz_verif_runner_test.go")] = runnerReal
	ovJSON, _ := json.Marshal(map[string]interface{}{"Replace": repl})
	ovPath := filepath.Join(workDir, "overlay.json")
	if err := os.WriteFile(ovPath, ovJSON, 0644); err != nil {
		return nil, err
	}
	// go.mod copy so that nothing is ever written into the repository
	modCopy := filepath.Join(workDir, "go.mod")
	if b, err := os.ReadFile(filepath.Join(s.repoDir, "go.mod")); err == nil {
		os.WriteFile(modCopy, b, 0644)
	}
	if b, err := os.ReadFile(filepath.Join(s.repoDir, "go.sum")); err == nil {
		os.WriteFile(filepath.Join(workDir, "go.sum"), b, 0644)
	}
	bin := filepath.Join(workDir, "replay.test")
	args := []string{"test", "-c", "-vet=off", "-overlay", ovPath, "-modfile", modCopy, "-o", bin}
	if race {
		args = append(args, "-race")
	}
	args = append(args, "./"+pkgDirs[sub])
	cmd := exec.Command("go", args...)
	cmd.Dir = s.repoDir
	cmd.Env = append(os.Environ(), "GOFLAGS=-mod=mod", "GOPROXY=off", "GOSUMDB=off", "GOTOOLCHAIN=local")
	if race {
		cmd.Env = append(cmd.Env, "CGO_ENABLED=1")
	}
	if b, err := cmd.CombinedOutput(); err != nil {
		return nil, fmt.Errorf("native build failed: %v\n%s", err, b)
	}
	defer os.Remove(bin)

	pending := vecs
	round := 0
	for len(pending) > 0 {
		round++
		vecPath := filepath.Join(workDir, fmt.Sprintf("vectors_%d.json", round))
		outPath := filepath.Join(workDir, fmt.Sprintf("results_%d.jsonl", round))
		os.Remove(outPath)
		vb, _ := json.Marshal(pending)
		os.WriteFile(vecPath, vb, 0644)
		run := exec.Command(bin, "-test.run", "^TestVerifReplay$", "-test.count=1", "-test.timeout", "30m")
		run.Dir = target
		run.Env = append(os.Environ(), "VERIF_VECTORS="+vecPath, "VERIF_OUT="+outPath,
			"VERIF_VEC_TIMEOUT="+timeout.String())
		if race {
			run.Env = append(run.Env, "GORACE=halt_on_error=1")
		}
		var stderr bytes.Buffer
		run.Stdout = &stderr
		run.Stderr = &stderr
		runErr := run.Run()
		raw, _ := os.ReadFile(outPath)
		started := -1
		finished := map[int]bool{}
		for _, line := range strings.Split(string(raw), "\n") {
			if strings.TrimSpace(line) == "" {
				continue
			}
			var r nativeResult
			if err := json.Unmarshal([]byte(line), &r); err != nil {
				continue
			}
			if r.Start != nil {
				started = *r.Start
				continue
			}
			rr := r
			out[r.ID] = &rr
			finished[r.ID] = true
		}
		var rest []nativeVector
		if runErr != nil && started >= 0 && !finished[started] {
			// the process died while running vector `started`
			msg := stderr.String()
			if i := strings.Index(msg, "panic:"); i >= 0 {
				msg = msg[i:]
			} else if i := strings.Index(msg, "fatal error:"); i >= 0 {
				msg = msg[i:]
			} else if i := strings.Index(msg, "WARNING: DATA RACE"); i >= 0 {
				msg = msg[i:]
			}
			if len(msg) > 1500 {
				msg = msg[:1500]
			}
			h := ""
			for _, v := range pending {
				if v.ID == started {
					h = v.Harness
				}
			}
			out[started] = &nativeResult{ID: started, Harness: h, Status: "crash", Detail: msg}
			finished[started] = true
		} else if runErr != nil && len(finished) == 0 {
			return out, fmt.Errorf("native run failed: %v\n%s", runErr, stderr.String())
		}
		for _, v := range pending {
			if !finished[v.ID] {
				rest = append(rest, v)
			}
		}
		if len(rest) == len(pending) {
			return out, fmt.Errorf("native run made no progress: %v\n%s", runErr, stderr.String())
		}
		pending = rest
		os.Remove(vecPath)
	}
	return out, nil
}

func loadEngine(verifDir, repoDir string, subs []string, cfg interp.Config) (*interp.Engine, *setup, error) {
	s, ov, err := buildOverlay(verifDir, repoDir, subs)
	if err != nil {
		return nil, nil, err
	}
	cfg.RepoDir = repoDir
	cfg.Module = modulePath
	cfg.Overlay = ov
	for _, sub := range subs {
		p := "./" + pkgDirs[sub]
		if pkgDirs[sub] == "." {
			p = "."
		}
		cfg.Patterns = append(cfg.Patterns, p)
	}
	e, err := interp.Load(cfg)
	return e, s, err
}

// harnessNamesFromSource lists "func VerifX()" declarations in a harness dir.
func harnessNamesFromSource(dir string) []string {
	var out []string
	ents, _ := os.ReadDir(dir)
	for _, e := range ents {
		if !strings.HasSuffix(e.Name(), ".go") {
			continue
		}
		b, _ := os.ReadFile(filepath.Join(dir, e.Name()))
		for _, line := range strings.Split(string(b), "\n") {
			if strings.HasPrefix(line, "func Verif") {
				name := strings.TrimPrefix(line, "func ")
				if i := strings.Index(name, "("); i > 0 {
					out = append(out, name[:i])
				}
			}
		}
	}
	sort.Strings(out)
	return out
}
