#!/bin/sh
# Builds the engine offline from files on disk only.
set -e
cd "$(dirname "$0")"
export GOFLAGS=-mod=mod GOPROXY=off GOSUMDB=off GOTOOLCHAIN=local
mkdir -p build evidence
cd engine
go build -o ../build/symgo ./cmd/symgo
echo "symgo built"
cd ..
# engine self-validation: litmus harnesses with known outcomes (about a minute)
python3 tools/litmus.py
