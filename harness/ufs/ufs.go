package ufs

// C15 (confinement) and C19 (OS-call refinement) for the host-directory file
// server.  The operating system is replaced by recording stubs: every os /
// syscall function reached from ufs calls vOSHook, which logs the call and
// decides its outcome nondeterministically.

import (
	"context"
	"os"

	p9p "github.com/frobnitzem/go-p9p"
)

var vBG = context.Background()

type vOSCall struct {
	fn          string
	path, path2 string
	flags       int
	perm        uint32
	off         int64
	n           int
	res         int
}

var vOSLog []vOSCall
var vOSNoFail bool
var vOSDirs map[string]bool // paths reported as directories (nil: nondeterministic)

func vOSHook(fn, path, path2 string, flags int, perm uint32, off int64, n int) int {
	res := 0
	if !vOSNoFail && ndChoice("os.fail."+fn, 2) == 1 {
		res = -1
	}
	if res == 0 && (fn == "readat" || fn == "writeat") {
		res = n
		if fn == "readat" && ndChoice("os.shortread", 2) == 1 && n > 0 {
			res = n - 1
		}
	}
	vOSLog = append(vOSLog, vOSCall{fn, path, path2, flags, perm, off, n, res})
	return res
}

var vInfoSize int64
var vInfoPerm uint32
var vInfoIno uint64

func vOSInfo(path string) (int64, uint32, bool, uint64) {
	isDir := ndChoice("os.isdir", 2) == 1
	return vInfoSize, vInfoPerm, isDir, vInfoIno
}

func vOSReadDirN(path string) int { return ndChoice("os.nentries", 3) }

const vBase = "/b"

// vInside reports whether an OS path lies inside the exported directory.
func vInside(p string) bool {
	if p == vBase {
		return true
	}
	if len(p) <= len(vBase) {
		return false
	}
	if !vEqStr(p[:len(vBase)+1], vBase+"/") {
		return false
	}
	// no ".." element
	rest := p[len(vBase)+1:]
	start := 0
	ok := true
	for i := 0; i <= len(rest); i++ {
		if i == len(rest) || rest[i] == '/' {
			if rest[start:i] == ".." {
				ok = false
			}
			start = i + 1
		}
	}
	return ok
}

// vCanon: p is a valid internal path (absolute, clean, no backslash)
func ndInternalPath(maxDepth int) string {
	depth := ndChoice("depth", maxDepth+1)
	if depth == 0 {
		return "/"
	}
	p := ""
	for i := 0; i < depth; i++ {
		e := ndString("elem", 1+ndChoice("elemlen", 2))
		for j := 0; j < len(e); j++ {
			vAssume(vAnd(e[j] != '/', e[j] != '\\'))
		}
		vAssume(vAnd(e != ".", e != ".."))
		p += "/" + e
	}
	return p
}

func ndNames(maxN, maxLen int) []string {
	n := ndChoice("nnames", maxN+1)
	names := make([]string, n)
	for i := range names {
		names[i] = ndString("name", ndChoice("nameLen", maxLen+1))
	}
	return names
}

func vCheckConfined(where string) {
	for _, c := range vOSLog {
		vAssert(vInside(c.path), "C15: every host path the server touches lies inside the export ("+where+": "+c.fn+")")
		if c.fn == "rename" {
			vAssert(vInside(c.path2), "C15: rename targets lie inside the export ("+where+")")
			// the root can only be renamed into its own subtree, which the kernel refuses
			// (a rename onto itself is a no-op)
			if c.path == vBase {
				vAssert(vInside(c.path2), "C15: the exported root cannot be renamed away")
			}
		}
		if c.fn == "remove" {
			vAssert(c.path != vBase, "C15: the exported root itself is never removed")
		}
	}
}

func vCanonInternal(p string) bool {
	if len(p) == 0 || p[0] != '/' {
		return false
	}
	if p == "/" {
		return true
	}
	ok := true
	start := 1
	for i := 1; i <= len(p); i++ {
		if i == len(p) || p[i] == '/' {
			e := p[start:i]
			if len(e) == 0 || e == "." || e == ".." {
				ok = false
			}
			start = i + 1
		} else if p[i] == '\\' {
			ok = false
		}
	}
	return ok
}

// one operation from a FileRef with an arbitrary valid internal path
func vC15Step(maxDepth, maxN, maxLen int) {
	vOSLog = nil
	fs := NewServer(vBG, vBase).(*fServer)
	ref := &FileRef{fs: fs, Path: ndInternalPath(maxDepth)}
	ref.Info.Mode = p9p.DMDIR
	ref.Info.Qid.Type = p9p.QTDIR
	op := ndChoice("op", 7)
	switch op {
	case 0:
		names := ndNames(maxN, maxLen)
		_, ne, err := ref.Walk(vBG, names...)
		if err == nil && ne != nil {
			vAssert(vCanonInternal(ne.(*FileRef).Path), "C15: a walked-to entry has a valid internal path")
			vReach("c15.walk.ok")
		}
	case 1:
		name := ndString("cname", ndChoice("cnamelen", maxLen+2))
		ne, _, err := ref.Create(vBG, name, ndU32("perm"), p9p.Flag(ndU8("mode")))
		if err == nil {
			vAssert(vCanonInternal(ne.(*FileRef).Path), "C15: a created entry has a valid internal path")
			vReach("c15.create.ok")
		}
	case 2:
		d := p9p.Dir{Mode: ^uint32(0), Length: ^uint64(0)}
		d.Name = ndString("newname", ndChoice("newnamelen", maxLen+2))
		err := ref.WStat(vBG, d)
		if err == nil {
			vAssert(vCanonInternal(ref.Path), "C15: a renamed entry keeps a valid internal path")
			vReach("c15.rename.ok")
		}
	case 3:
		ref.Remove(vBG)
	case 4:
		ref.Open(vBG, p9p.Flag(ndU8("mode")))
	case 5:
		ref.OpenDir(vBG)
	case 6:
		ref.WStat(vBG, p9p.Dir{Mode: ndU32("wmode"), Length: ndU64("wlen")})
	}
	// the inductive invariant: whatever the operation did or refused to do, the
	// entry it was applied to still carries a valid internal path, so that the
	// next operation again starts from a state this harness covers
	vAssert(vCanonInternal(ref.Path), "C15: every operation, successful or not, leaves its entry with a valid internal path")
	vCheckConfined("one operation")
	vReach("c15.step")
}

func VerifC15_StepQuick()    { vC15Step(1, 2, 2) }
func VerifC15_StepThorough() { vC15Step(2, 3, 3) }

// the same through the session (name validation of the session included)
func vC15Session(maxN, maxLen int) {
	vOSLog = nil
	sess := p9p.SFileSys(NewServer(vBG, vBase))
	_, err := sess.Attach(vBG, 1, p9p.NOFID, "u", "")
	if err != nil {
		vCheckConfined("attach")
		return
	}
	switch ndChoice("op", 3) {
	case 0:
		sess.Walk(vBG, 1, 2, ndNames(maxN, maxLen)...)
	case 1:
		sess.Create(vBG, 1, ndString("cname", ndChoice("cnamelen", maxLen+1)), ndU32("perm"), p9p.Flag(ndU8("mode")))
	case 2:
		d := p9p.Dir{Mode: ^uint32(0), Length: ^uint64(0)}
		d.Name = ndString("newname", ndChoice("newnamelen", maxLen+2))
		sess.WStat(vBG, 1, d)
	}
	vCheckConfined("session operation")
	vReach("c15.session")
}

func VerifC15_SessionQuick()    { vC15Session(2, 2) }
func VerifC15_SessionThorough() { vC15Session(3, 3) }

// ---------------------------------------------------------------------------
// C19: ufs issues exactly the OS operations the equivalent direct calls would

func vLast() vOSCall { return vOSLog[len(vOSLog)-1] }

func vRefFlags(mode p9p.Flag) int {
	f := os.O_RDONLY
	switch mode & 3 {
	case 1:
		f = os.O_WRONLY
	case 2:
		f = os.O_RDWR
	}
	if mode&0x10 != 0 {
		f |= os.O_TRUNC
	}
	return f
}

func VerifC19_Calls() {
	vOSLog = nil
	vOSNoFail = true
	defer func() { vOSNoFail = false }()
	fs := NewServer(vBG, vBase).(*fServer)
	ref := &FileRef{fs: fs, Path: "/d"}
	ref.Info.Mode = p9p.DMDIR
	ref.Info.Qid.Type = p9p.QTDIR
	full := vBase + "/d"
	mode := p9p.Flag(ndU8("mode"))
	vAssert(oflags(mode) == vRefFlags(mode), "C19: open flags: access mode from mode&3, O_TRUNC iff OTRUNC")
	switch ndChoice("op", 7) {
	case 6: // a clone is a freshly walked fid: its stat reflects the host now, not the source fid's cache
		ref.Info.Length = 3
		ref.Info.Mode = p9p.DMDIR | 0644
		vInfoSize = ndI64("size")
		vAssume(vInfoSize >= 0)
		vInfoPerm = ndU32("fperm")
		vInfoIno = ndU64("ino")
		_, ne, err := ref.Walk(vBG)
		vAssert(err == nil && ne != nil, "C19: clone succeeds when stat does")
		d, _ := ne.Stat(vBG)
		vAssert(d.Length == uint64(vInfoSize), "C19: stat through a freshly cloned fid = host size")
		vAssert(d.Mode&0777 == vInfoPerm&0777, "C19: stat through a freshly cloned fid = host permission bits")
		vAssert(d.Qid.Path == vInfoIno, "C19: qid path through a freshly cloned fid = host inode")
		vReach("c19.clone")
	case 0: // Open
		f, err := ref.Open(vBG, mode)
		c := vLast()
		vAssert(err == nil && f != nil, "C19: open succeeds when the OS call does")
		vAssert(c.fn == "openfile" && c.path == full && c.flags == vRefFlags(mode) && c.perm == 0, "C19: Open = OpenFile(path, oflags(mode), 0)")
		// read / write through the opened file
		off := ndI64("off")
		n := ndChoice("n", 3)
		if ndChoice("rw", 2) == 0 {
			got, err := f.Read(vBG, make([]byte, n), off)
			c = vLast()
			vAssert(c.fn == "readat" && c.path == full && c.off == off && c.n == n, "C19: Read = ReadAt(p, offset) on that file")
			vAssert(err == nil && got == c.res, "C19: read result passed through, EOF squashed")
		} else {
			got, err := f.Write(vBG, make([]byte, n), off)
			c = vLast()
			vAssert(c.fn == "writeat" && c.path == full && c.off == off && c.n == n, "C19: Write = WriteAt(p, offset) on that file")
			vAssert(err == nil && got == c.res, "C19: write result passed through")
		}
		vReach("c19.open")
	case 1: // Create file / directory
		perm := ndU32("perm")
		vAssume(perm&(p9p.DMSYMLINK|p9p.DMNAMEDPIPE|p9p.DMDEVICE) == 0)
		ne, _, err := ref.Create(vBG, "x", perm, mode)
		vAssert(err == nil && ne != nil, "C19: create succeeds when the OS calls do")
		c := vOSLog[0]
		if perm&p9p.DMDIR != 0 {
			vAssert(c.fn == "mkdir" && c.path == full+"/x" && c.perm == perm&0777, "C19: Create(DMDIR) = Mkdir(path, perm&0777)")
		} else {
			vAssert(c.fn == "openfile" && c.path == full+"/x" && c.flags == vRefFlags(mode)|os.O_CREATE && c.perm == perm&0777, "C19: Create = OpenFile(path, oflags|O_CREATE, perm&0777)")
		}
		vReach("c19.create")
	case 2: // Remove
		ref.Remove(vBG)
		c := vLast()
		vAssert(c.fn == "remove" && c.path == full, "C19: Remove = os.Remove(path)")
		vReach("c19.remove")
	case 3: // WStat
		d := p9p.Dir{Mode: ndU32("wmode"), Length: ndU64("wlen")}
		if ndChoice("rename", 2) == 1 {
			d.Name = "y"
		}
		err := ref.WStat(vBG, d)
		vAssert(err == nil, "C19: wstat succeeds when the OS calls do")
		i := 0
		if d.Mode != ^uint32(0) {
			vAssert(i < len(vOSLog) && vOSLog[i].fn == "chmod" && vOSLog[i].path == full && vOSLog[i].perm == d.Mode&0777, "C19: WStat mode = Chmod(path, mode&0777)")
			i++
		}
		if d.Name != "" {
			vAssert(i < len(vOSLog) && vOSLog[i].fn == "rename" && vOSLog[i].path == full && vOSLog[i].path2 == vBase+"/y", "C19: WStat name = Rename(path, dir/name)")
			i++
			full = vBase + "/y"
		}
		if d.Length != ^uint64(0) {
			vAssert(i < len(vOSLog) && vOSLog[i].fn == "truncate" && vOSLog[i].path == full && vOSLog[i].off == int64(d.Length), "C19: WStat length = Truncate(path, length)")
			i++
		}
		vAssert(i == len(vOSLog), "C19: WStat issues no other OS operation")
		vReach("c19.wstat")
	case 4: // stat of a freshly walked fid reflects the host's attributes
		vInfoSize = ndI64("size")
		vAssume(vInfoSize >= 0)
		vInfoPerm = ndU32("fperm")
		vInfoIno = ndU64("ino")
		_, ne, err := ref.Walk(vBG, "f")
		vAssert(err == nil, "C19: walk succeeds when stat does")
		d, _ := ne.Stat(vBG)
		vAssert(d.Length == uint64(vInfoSize), "C19: stat length = host size")
		vAssert(d.Mode&0777 == vInfoPerm&0777, "C19: stat permission bits = host permission bits")
		vAssert(d.Qid.Path == vInfoIno, "C19: qid path = host inode")
		vAssert((d.Mode&p9p.DMDIR != 0) == (d.Qid.Type&p9p.QTDIR != 0), "C19: directory bit consistent")
		vAssert(d.Name == "f", "C19: stat name = host name")
		vReach("c19.stat")
	case 5: // listing
		next, err := ref.OpenDir(vBG)
		vAssert(err == nil, "C19: opendir succeeds when ReadDir does")
		dirs, _ := next(vBG)
		n := 0
		for _, c := range vOSLog {
			if c.fn == "readdir" {
				n++
				vAssert(c.path == full, "C19: OpenDir = ReadDir(path)")
			}
		}
		vAssert(n == 1, "C19: one ReadDir per OpenDir")
		for i, d := range dirs {
			vAssert(d.Name == "e"+string(rune('0'+i)), "C19: listing has the host's entries in order")
		}
		vReach("c19.list")
	}
}
