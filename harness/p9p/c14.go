package p9p

// C14 - concurrent session operations are atomic per fid and never deadlock.
// Two goroutines each perform one operation on a shared session; the stub file
// system yields inside every call and monitors overlapping calls per entry.

import "context"

type vMState struct {
	bound [4]bool // fids 1..3
	open  [4]bool
}

type vMOp struct {
	kind int // 0 clunk, 1 clone, 2 open, 3 stat, 4 read, 5 remove, 6 clone whose FS walk fails
	fail bool // the file system's Remove/Clunk reports an error (the fid is unbound all the same)
	fid  Fid
	nf   Fid
}

// sequential reference semantics (stub calls do not fail)
func vMStep(s vMState, o vMOp) (vMState, bool) {
	f := int(o.fid)
	switch o.kind {
	case 0, 5:
		if !s.bound[f] {
			return s, false
		}
		s.bound[f], s.open[f] = false, false
		return s, !o.fail
	case 6:
		return s, false
	case 1:
		g := int(o.nf)
		if !s.bound[f] || s.bound[g] {
			return s, false
		}
		s.bound[g], s.open[g] = true, false
		return s, true
	case 2:
		if !s.bound[f] || s.open[f] {
			return s, false
		}
		s.open[f] = true
		return s, true
	case 3:
		return s, s.bound[f]
	case 4:
		return s, s.bound[f] && s.open[f]
	case 7: // walk in place by one name: the fid stays bound (to the walked-to entry)
		return s, s.bound[f]
	case 8: // attach onto the fid
		if s.bound[f] {
			return s, false
		}
		s.bound[f], s.open[f] = true, false
		return s, true
	}
	return s, false
}

func vMDo(sess *session, o vMOp) bool {
	var err error
	switch o.kind {
	case 0:
		err = sess.Clunk(vBG, o.fid)
	case 5:
		err = sess.Remove(vBG, o.fid)
	case 8:
		_, err = sess.Attach(vBG, o.fid, NOFID, "u", "a")
	case 7:
		var qs []Qid
		qs, err = sess.Walk(vBG, o.fid, o.fid, "a")
		if err == nil && len(qs) != 1 {
			err = errVMock
		}
	case 1, 6:
		_, err = sess.Walk(vBG, o.fid, o.nf)
	case 2:
		_, _, err = sess.Open(vBG, o.fid, OREAD)
	case 3:
		_, err = sess.Stat(vBG, o.fid)
	case 4:
		_, err = sess.Read(vBG, o.fid, make([]byte, 1), 0)
	}
	return err == nil
}

func vMObserve(sess *session) vMState {
	var s vMState
	for f := 1; f <= 3; f++ {
		if v, ok := sess.refs.Load(Fid(f)); ok {
			sf := v.(*SFid)
			if sf.Ent != nil {
				s.bound[f] = true
				s.open[f] = sf.File != nil
			}
		}
	}
	return s
}

func ndMOp(name string) vMOp {
	o := vMOp{kind: ndChoice(name+".kind", 7), fid: Fid(1 + ndChoice(name+".fid", 3))}
	if o.kind == 1 || o.kind == 6 {
		o.nf = Fid(1 + ndChoice(name+".nf", 3))
	}
	if o.kind == 0 || o.kind == 5 {
		o.fail = ndChoice(name+".fail", 2) == 1
	}
	return o
}

func vC14Pair() {
	fs := &vStubFS{noFail: true, yield: true}
	sess := SFileSys(fs).(*session)
	// pre-state: fid 1 = directory, unopened; fid 2 = file, open or not; fid 3 free
	e1 := fs.newEnt(true)
	sess.refs.Store(Fid(1), &SFid{Ent: e1})
	e2 := fs.newEnt(false)
	sf2 := &SFid{Ent: e2}
	var st0 vMState
	st0.bound[1], st0.bound[2] = true, true
	if ndChoice("pre.open2", 2) == 1 {
		e2.file = &vStubFile{ent: e2}
		sf2.File = e2.file
		st0.open[2] = true
	}
	sess.refs.Store(Fid(2), sf2)
	a, b := ndMOp("a"), ndMOp("b")
	// premise: the client does not allocate the same new fid from two requests at once
	aw, bw := a.kind == 1 || a.kind == 6, b.kind == 1 || b.kind == 6
	if aw && bw && a.nf == b.nf {
		return
	}
	if aw && a.nf == a.fid || bw && b.nf == b.fid {
		return // in-place clone is a no-op; keep the pair model simple
	}
	// failure script for the stub: which entity's release fails / whose clone fails
	fs.failRelease = map[int]bool{}
	if a.fail {
		fs.failRelease[int(a.fid)] = true
	}
	if b.fail {
		fs.failRelease[int(b.fid)] = true
	}
	fs.failClone = map[int]bool{}
	if a.kind == 6 {
		fs.failClone[int(a.fid)] = true
	}
	if b.kind == 6 {
		fs.failClone[int(b.fid)] = true
	}
	if a.kind == 6 && (b.kind == 1 && b.fid == a.fid) || b.kind == 6 && (a.kind == 1 && a.fid == b.fid) {
		return // a failing and a succeeding clone of the same source: the stub scripts failures per source entity
	}
	done := make(chan bool, 2)
	var ra, rb bool
	go func() { ra = vMDo(sess, a); done <- true }()
	go func() { rb = vMDo(sess, b); done <- true }()
	<-done
	<-done // an operation that never returns is reported as a deadlock
	final := vMObserve(sess)
	// some sequential order explains results and final state
	s1, x1 := vMStep(st0, a)
	s1, y1 := vMStep(s1, b)
	s2, y2 := vMStep(st0, b)
	s2, x2 := vMStep(s2, a)
	ok1 := ra == x1 && rb == y1 && final == s1
	ok2 := ra == x2 && rb == y2 && final == s2
	vAssert(ok1 || ok2, "C14: the results are those of some sequential order of the operations")
	vAssert(fs.viol == "", "C14: the file system never sees overlapping calls on one fid's entry or file: "+fs.viol)
	// nothing left locked
	sess.refs.Range(func(k, v interface{}) bool {
		sf := v.(*SFid)
		okl := sf.TryLock()
		vAssert(okl, "C14: no fid is left locked after the operations returned")
		if okl {
			sf.Unlock()
		}
		return true
	})
	vReach("c14.pair")
}

func VerifC14_Pair() { vC14Pair() }

// ---- three concurrent operations contending for one fid -----------------------
// A is the operation that makes the fid's table entry come or go (a clone onto
// the new fid 3 whose walk succeeds or fails, or a clunk/remove of fid 1 or 2);
// B and C are operations on that same fid, issued at the same time.  Explored
// delay-bounded (see check spec): every operation must return, the outcome must
// be that of some sequential order, nothing is left locked.
func vC14Triple() {
	fs := &vStubFS{noFail: true, yield: true}
	sess := SFileSys(fs).(*session)
	e1 := fs.newEnt(true)
	sess.refs.Store(Fid(1), &SFid{Ent: e1})
	e2 := fs.newEnt(false)
	e2.file = &vStubFile{ent: e2}
	sess.refs.Store(Fid(2), &SFid{Ent: e2, File: e2.file})
	var st0 vMState
	st0.bound[1], st0.bound[2], st0.open[2] = true, true, true
	var ops [3]vMOp
	var hot Fid
	fs.failRelease = map[int]bool{}
	fs.failClone = map[int]bool{}
	switch ndChoice("a.kind", 4) {
	case 0:
		ops[0] = vMOp{kind: 1, fid: 1, nf: 3}
		hot = 3
	case 1:
		ops[0] = vMOp{kind: 6, fid: 1, nf: 3}
		fs.failClone[1] = true
		hot = 3
	case 2:
		hot = Fid(1 + ndChoice("a.fid", 2))
		ops[0] = vMOp{kind: 0, fid: hot, fail: ndChoice("a.fail", 2) == 1}
	case 3:
		hot = Fid(1 + ndChoice("a.fid", 2))
		ops[0] = vMOp{kind: 5, fid: hot, fail: ndChoice("a.fail", 2) == 1}
	}
	if ops[0].fail {
		fs.failRelease[int(hot)] = true
	}
	kinds := []int{3, 2, 4, 0} // stat, open, read, clunk
	ops[1] = vMOp{kind: kinds[ndChoice("b.kind", 4)], fid: hot}
	ops[2] = vMOp{kind: kinds[ndChoice("c.kind", 4)], fid: hot}
	if ops[0].fail && (ops[1].kind == 0 || ops[2].kind == 0) {
		// the stub scripts release failures per fid; a second clunk of the same fid
		// would inherit A's failure flag
		ops[1].fail = ops[1].kind == 0
		ops[2].fail = ops[2].kind == 0
	}
	done := make(chan bool, 3)
	var res [3]bool
	for i := 0; i < 3; i++ {
		go func(i int) { res[i] = vMDo(sess, ops[i]); done <- true }(i)
	}
	for i := 0; i < 3; i++ {
		<-done // an operation that never returns is reported as a deadlock
	}
	final := vMObserve(sess)
	perms := [][3]int{{0, 1, 2}, {0, 2, 1}, {1, 0, 2}, {1, 2, 0}, {2, 0, 1}, {2, 1, 0}}
	okAny := false
	for _, p := range perms {
		s := st0
		ok := true
		for _, i := range p {
			var r bool
			s, r = vMStep(s, ops[i])
			if r != res[i] {
				ok = false
			}
		}
		if ok && s == final {
			okAny = true
		}
	}
	vAssert(okAny, "C14: the results are those of some sequential order of the operations")
	vAssert(fs.viol == "", "C14: the file system never sees overlapping calls on one fid's entry or file: "+fs.viol)
	sess.refs.Range(func(k, v interface{}) bool {
		sf := v.(*SFid)
		okl := sf.TryLock()
		vAssert(okl, "C14: no fid is left locked after the operations returned")
		if okl {
			sf.Unlock()
		}
		return true
	})
	vReach("c14.triple")
}

func VerifC14_Triple() { vC14Triple() }

// ---- auth fids --------------------------------------------------------------
// A file system that requires authentication: Auth binds an auth fid (an entry
// of the fid table without a directory entry).  Whatever later operations on
// that fid return - the property leaves auth files unspecified - each of them
// must return and must leave no fid locked, and a clunk unbinds it.
type vAuthFS struct{ vStubFS }

func (fs *vAuthFS) RequireAuth(ctx context.Context) bool { return true }
func (fs *vAuthFS) Auth(ctx context.Context, uname, aname string) (AuthFile, error) {
	if ndChoice("auth.fail", 2) == 1 {
		return nil, errVMock
	}
	return &vAuthFile{}, nil
}

type vAuthFile struct{ closed int }

func (f *vAuthFile) Read(ctx context.Context, p []byte, offset int64) (int, error)  { return 0, nil }
func (f *vAuthFile) Write(ctx context.Context, p []byte, offset int64) (int, error) { return len(p), nil }
func (f *vAuthFile) IOUnit() int                                                   { return 0 }
func (f *vAuthFile) Close(ctx context.Context) error                               { f.closed++; return nil }
func (f *vAuthFile) Success() bool                                                 { return true }

func VerifC14_AuthFid() {
	fs := &vAuthFS{}
	fs.noFail = true
	sess := SFileSys(fs).(*session)
	e1 := fs.newEnt(true)
	sess.refs.Store(Fid(1), &SFid{Ent: e1})
	afid := Fid(ndU32("afid"))
	vAssume(afid != 1)
	_, err := sess.Auth(vBG, afid, "u", "a")
	unlocked := func() {
		sess.refs.Range(func(k, v interface{}) bool {
			sf := v.(*SFid)
			okl := sf.TryLock()
			vAssert(okl, "C14: no fid is left locked after an operation returns")
			if okl {
				sf.Unlock()
			}
			return true
		})
	}
	unlocked()
	if err != nil {
		_, held := sess.refs.Load(afid)
		vAssert(!held, "C14: a failed auth leaves nothing behind in the fid table")
		return
	}
	for k := 0; k < 2; k++ {
		fid := afid
		if ndChoice("op.other", 3) == 0 {
			fid = Fid(ndU32("op.fid"))
		}
		switch ndChoice("op", 7) {
		case 0:
			sess.Stat(vBG, fid)
		case 1:
			sess.Open(vBG, fid, OREAD)
		case 2:
			sess.Read(vBG, fid, make([]byte, 1), 0)
		case 3:
			sess.Write(vBG, fid, make([]byte, 1), 0)
		case 4:
			sess.Walk(vBG, fid, Fid(ndU32("op.newfid")))
		case 5:
			sess.Attach(vBG, Fid(ndU32("op.newfid")), fid, "u", "a")
		case 6:
			sess.Clunk(vBG, fid)
			if fid == afid {
				_, held := sess.refs.Load(afid)
				vAssert(!held, "C08: clunk always unbinds the fid")
			}
		}
		unlocked() // an operation that never returns is reported as a deadlock
	}
	vReach("c14.authfid")
}


// ---- a walk in place racing another operation on the same fid -----------------
// fid 1 is a directory; A walks it in place by one name, B is a stat, clunk,
// remove or clone of fid 1 at the same time.  Every schedule; outcome must be
// that of some sequential order, nothing left locked, no overlapping calls.
func VerifC14_InPlaceWalk() {
	fs := &vStubFS{noFail: true, yield: true, fullWalk: true}
	sess := SFileSys(fs).(*session)
	e1 := fs.newEnt(true)
	sess.refs.Store(Fid(1), &SFid{Ent: e1})
	var st0 vMState
	st0.bound[1] = true
	a := vMOp{kind: 7, fid: 1}
	b := vMOp{kind: []int{3, 0, 5, 1}[ndChoice("b.kind", 4)], fid: 1, nf: 3}
	fs.failRelease = map[int]bool{}
	fs.failClone = map[int]bool{}
	done := make(chan bool, 2)
	var ra, rb bool
	go func() { ra = vMDo(sess, a); done <- true }()
	go func() { rb = vMDo(sess, b); done <- true }()
	<-done
	<-done // an operation that never returns is reported as a deadlock
	final := vMObserve(sess)
	s1, x1 := vMStep(st0, a)
	s1, y1 := vMStep(s1, b)
	s2, y2 := vMStep(st0, b)
	s2, x2 := vMStep(s2, a)
	ok1 := ra == x1 && rb == y1 && final == s1
	ok2 := ra == x2 && rb == y2 && final == s2
	vAssert(ok1 || ok2, "C14: the results are those of some sequential order of the operations")
	vAssert(fs.viol == "", "C14: the file system never sees overlapping calls on one fid's entry or file: "+fs.viol)
	sess.refs.Range(func(k, v interface{}) bool {
		sf := v.(*SFid)
		okl := sf.TryLock()
		vAssert(okl, "C14: no fid is left locked after the operations returned")
		if okl {
			sf.Unlock()
		}
		return true
	})
	vReach("c14.inplace")
}


// ---- four concurrent operations on one fid number -----------------------------
// A stat (which holds the fid while the file system yields), two clunks (or a
// clunk and a remove) and an attach that binds the same fid number again.
// Delay-bounded; every operation returns, the outcome is that of some
// sequential order, nothing stays locked.
func VerifC14_Quad() {
	fs := &vStubFS{noFail: true, yield: true, fullWalk: true}
	sess := SFileSys(fs).(*session)
	e1 := fs.newEnt(true)
	sess.refs.Store(Fid(1), &SFid{Ent: e1})
	var st0 vMState
	st0.bound[1] = true
	fs.failRelease = map[int]bool{}
	fs.failClone = map[int]bool{}
	ops := [4]vMOp{
		{kind: []int{3, 7}[ndChoice("x.kind", 2)], fid: 1},
		{kind: 0, fid: 1},
		{kind: []int{0, 5}[ndChoice("c2.kind", 2)], fid: 1},
		{kind: 8, fid: 1},
	}
	done := make(chan bool, 4)
	var res [4]bool
	for i := 0; i < 4; i++ {
		go func(i int) { res[i] = vMDo(sess, ops[i]); done <- true }(i)
	}
	for i := 0; i < 4; i++ {
		<-done // an operation that never returns is reported as a deadlock
	}
	final := vMObserve(sess)
	okAny := false
	var perm func(k int, used [4]bool, s vMState, ok bool)
	perm = func(k int, used [4]bool, s vMState, ok bool) {
		if k == 4 {
			if ok && s == final {
				okAny = true
			}
			return
		}
		for i := 0; i < 4; i++ {
			if used[i] {
				continue
			}
			s2, r := vMStep(s, ops[i])
			u := used
			u[i] = true
			perm(k+1, u, s2, ok && r == res[i])
		}
	}
	perm(0, [4]bool{}, st0, true)
	vAssert(okAny, "C14: the results are those of some sequential order of the operations")
	vAssert(fs.viol == "", "C14: the file system never sees overlapping calls on one fid's entry or file: "+fs.viol)
	sess.refs.Range(func(k, v interface{}) bool {
		sf := v.(*SFid)
		okl := sf.TryLock()
		vAssert(okl, "C14: no fid is left locked after the operations returned")
		if okl {
			sf.Unlock()
		}
		return true
	})
	vReach("c14.quad")
}
