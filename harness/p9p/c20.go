package p9p

// C20 - the client file-system layer maps entries to fids faithfully, leaking none.
// CFileSys(spy) where spy wraps the real SFileSys(stubFS) session in-process.

import "context"

type vSpyCall struct {
	op    string
	fid   Fid
	new   Fid
	names []string // walk only
}

type vSpy struct {
	inner Session
	calls []vSpyCall
}

func (s *vSpy) rec(op string, fid, nf Fid) { s.calls = append(s.calls, vSpyCall{op: op, fid: fid, new: nf}) }
func (s *vSpy) last() vSpyCall {
	if len(s.calls) == 0 {
		return vSpyCall{}
	}
	return s.calls[len(s.calls)-1]
}

func (s *vSpy) Auth(ctx context.Context, afid Fid, uname, aname string) (Qid, error) {
	s.rec("auth", afid, 0)
	return s.inner.Auth(ctx, afid, uname, aname)
}
func (s *vSpy) Attach(ctx context.Context, fid, afid Fid, uname, aname string) (Qid, error) {
	s.rec("attach", fid, afid)
	return s.inner.Attach(ctx, fid, afid, uname, aname)
}
func (s *vSpy) Clunk(ctx context.Context, fid Fid) error {
	s.rec("clunk", fid, 0)
	return s.inner.Clunk(ctx, fid)
}
func (s *vSpy) Remove(ctx context.Context, fid Fid) error {
	s.rec("remove", fid, 0)
	return s.inner.Remove(ctx, fid)
}
func (s *vSpy) Walk(ctx context.Context, fid Fid, newfid Fid, names ...string) ([]Qid, error) {
	s.rec("walk", fid, newfid)
	s.calls[len(s.calls)-1].names = append([]string(nil), names...)
	return s.inner.Walk(ctx, fid, newfid, names...)
}
func (s *vSpy) Read(ctx context.Context, fid Fid, p []byte, offset int64) (int, error) {
	s.rec("read", fid, 0)
	return s.inner.Read(ctx, fid, p, offset)
}
func (s *vSpy) Write(ctx context.Context, fid Fid, p []byte, offset int64) (int, error) {
	s.rec("write", fid, 0)
	return s.inner.Write(ctx, fid, p, offset)
}
func (s *vSpy) Open(ctx context.Context, fid Fid, mode Flag) (Qid, uint32, error) {
	s.rec("open", fid, 0)
	return s.inner.Open(ctx, fid, mode)
}
func (s *vSpy) Create(ctx context.Context, parent Fid, name string, perm uint32, mode Flag) (Qid, uint32, error) {
	s.rec("create", parent, 0)
	return s.inner.Create(ctx, parent, name, perm, mode)
}
func (s *vSpy) Stat(ctx context.Context, fid Fid) (Dir, error) {
	s.rec("stat", fid, 0)
	return s.inner.Stat(ctx, fid)
}
func (s *vSpy) WStat(ctx context.Context, fid Fid, dir Dir) error {
	s.rec("wstat", fid, 0)
	return s.inner.WStat(ctx, fid, dir)
}
func (s *vSpy) Version() (int, string) { return 8192, DefaultVersion }
func (s *vSpy) Stop(err error) error   { return s.inner.Stop(err) }

func vBoundFids(sess *session) int {
	n := 0
	sess.refs.Range(func(k, v interface{}) bool {
		if v.(*SFid).Ent != nil {
			n++
		}
		return true
	})
	return n
}

func vBoundTo(sess *session, fid Fid) *vStubEnt {
	v, ok := sess.refs.Load(fid)
	if !ok {
		return nil
	}
	e, _ := v.(*SFid).Ent.(*vStubEnt)
	return e
}

var vC20LiteNames = [][]string{nil, {"a"}, {"x/y"}, {".", "a"}, {"a", "b"}, {"a", "..", "b"}}

func vC20(steps, maxNames, maxLen int, stubFails bool) {
	lite := maxNames == 0
	fs := &vStubFS{noFail: !stubFails}
	sess := SFileSys(fs).(*session)
	spy := &vSpy{inner: sess}
	cfs := CFileSys(spy)
	root, err := cfs.Attach(vBG, "u", "a", nil)
	if err != nil {
		vAssert(vBoundFids(sess) == 0, "C20: a failed attach leaves no fid bound")
		vReach("c20.attachfail")
		return
	}
	live := []cEnt{root.(cEnt)}
	var dead []cEnt // entries the caller has clunked or removed (lite alphabet only)
	vAssert(vBoundTo(sess, live[0].fid) != nil, "C20: the attached entry's fid is bound on the server")
	for st := 0; st < steps && len(live) > 0; st++ {
		idx := ndChoice("which", len(live))
		ent := live[idx]
		var op int
		if lite {
			op = []int{0, 1, 2, 5, 6, 7, 8}[ndChoice("op", 7)]
		} else {
			op = ndChoice("op", 8)
		}
		ncalls := len(spy.calls)
		before := vBoundFids(sess)
		switch op {
		case 8: // clunk or remove through an entry that was already clunked or removed
			if len(dead) > 0 {
				d := dead[ndChoice("dead", len(dead))]
				if ndChoice("dead.remove", 2) == 1 {
					d.Remove(vBG)
				} else {
					d.Clunk(vBG)
				}
			}
		case 0: // Walk
			var names []string
			if lite {
				names = vC20LiteNames[ndChoice("names", maxLen)]
			} else {
				names = ndNames(maxNames, maxLen)
			}
			nents := len(fs.ents)
			asked := append([]string(nil), names...)
			qids, ne, err := ent.Walk(vBG, names...)
			after := vBoundFids(sess)
			completed := after > before
			if len(spy.calls) > ncalls {
				c := spy.last()
				vAssert(c.op == "walk" && c.fid == ent.fid, "C20: walk issues Walk on the entry's own fid")
				want, _ := vRefNormalize(asked)
				vAssert(vStrsEq(c.names, want), "C20: walk issues the corresponding session call (the caller's names, normalised)")
			}
			vAssert(vStrsEq(names, asked), "C20: walk leaves the caller's name list as it was")
			if completed {
				vAssert(err == nil, "C20: a walk that the server completed is reported as success")
				if err == nil {
					ce := ne.(cEnt)
					tgt := vBoundTo(sess, ce.fid)
					vAssert(tgt != nil && len(fs.ents) > nents && tgt == fs.ents[len(fs.ents)-1], "C20: the entry of a completed walk holds the fid bound to the walked-to file")
					live = append(live, ce)
					vReach("c20.walk.ok")
				}
			} else {
				vAssert(after == before, "C20: a failed or partial walk leaves no fid bound on the server")
				if err == nil {
					// success without a new server fid is only possible for nothing
					vAssert(false, "C20: a walk reported as success has a server fid")
				}
				_ = qids
				vReach("c20.walk.fail")
			}
		case 1: // Open / OpenDir
			if IsDir(ent) {
				_, err = ent.OpenDir(vBG)
			} else {
				_, err = ent.Open(vBG, Flag(ndU8("mode")))
			}
			c := spy.last()
			vAssert(len(spy.calls) == ncalls+1 && c.op == "open" && c.fid == ent.fid, "C20: open issues Open on the entry's own fid")
		case 2: // Create
			name := "a"
			if !lite {
				name = ndString("cname", 1+ndChoice("cnamelen", 2))
			}
			ne, _, err := ent.Create(vBG, name, ndU32("perm"), Flag(ndU8("mode")))
			if len(spy.calls) > ncalls {
				c := spy.last()
				vAssert(c.op == "create" && c.fid == ent.fid, "C20: create issues Create on the entry's own fid")
			}
			if err == nil {
				live[idx] = ne.(cEnt) // create consumes the parent entry
				vAssert(ne.(cEnt).fid == ent.fid, "C20: the created entry lives on the parent's fid")
			} else if vBoundTo(sess, ent.fid) == nil {
				// the server dropped the fid (create half-way failure)
				live = append(live[:idx:idx], live[idx+1:]...)
			}
		case 3: // Stat
			_, err = ent.Stat(vBG)
			c := spy.last()
			vAssert(len(spy.calls) == ncalls+1 && c.op == "stat" && c.fid == ent.fid, "C20: stat issues Stat on the entry's own fid")
		case 4: // WStat
			err = ent.WStat(vBG, Dir{})
			c := spy.last()
			vAssert(len(spy.calls) == ncalls+1 && c.op == "wstat" && c.fid == ent.fid, "C20: wstat issues WStat on the entry's own fid")
		case 7: // attach again on the same client file system
			r2, err := cfs.Attach(vBG, "u", "a", nil)
			if !stubFails {
				vAssert(err == nil, "C20: a further attach succeeds on a fid distinct from every live entry's")
			}
			if err == nil {
				live = append(live, r2.(cEnt))
				vReach("c20.reattach")
			} else {
				vAssert(vBoundFids(sess) == before, "C20: a failed attach binds nothing")
			}
		case 5, 6: // Clunk, Remove
			if op == 5 {
				err = ent.Clunk(vBG)
			} else {
				err = ent.Remove(vBG)
			}
			c := spy.last()
			want := "clunk"
			if op == 6 {
				want = "remove"
			}
			vAssert(len(spy.calls) == ncalls+1 && c.op == want && c.fid == ent.fid, "C20: clunk/remove issue the call on the entry's own fid")
			live = append(live[:idx:idx], live[idx+1:]...)
			if lite {
				dead = append(dead, ent)
			}
		}
		// live entries <-> pairwise distinct, bound server fids
		for i := range live {
			for j := 0; j < i; j++ {
				vAssert(live[i].fid != live[j].fid, "C20: live entries hold pairwise distinct fids")
			}
			vAssert(vBoundTo(sess, live[i].fid) != nil, "C20: every live entry's fid is bound on the server")
		}
		vAssert(vBoundFids(sess) == len(live), "C20: the server holds exactly the fids of the live entries")
	}
	for _, e := range live {
		e.Clunk(vBG)
	}
	vAssert(vBoundFids(sess) == 0, "C20: after every entry was clunked or removed the server holds no fid from that client")
	vReach("c20.done")
}

func VerifC20_Quick()    { vC20(2, 3, 1, false) }
func VerifC20_Thorough() { vC20(2, 2, 2, true) }

// long sequences over a small alphabet of walk name lists (maxNames == 0 selects it)
func VerifC20_DeepQuick()    { vC20(4, 0, 3, false) }
func VerifC20_DeepThorough() { vC20(4, 0, 6, false) }
