package p9p

// C06 (sequential part) - the session handler dispatches each request to
// exactly the matching Session method with exactly the request's arguments and
// builds the reply from exactly what the method returned.

var vTKinds = []FcallType{Tauth, Tattach, Twalk, Topen, Tcreate, Tread, Twrite, Tclunk, Tremove, Tstat, Twstat}

func vC06Dispatch(sh *vShape) {
	kind := vTKinds[ndChoice("kind", len(vTKinds))]
	msg := ndMessage(kind, sh)
	rec := &vRecSession{msize: 24}
	switch ndChoice("fail", 3) {
	case 1:
		rec.fail = true
		rec.rerr = MessageRerror{Ename: ndString("etext", 2)}
	case 2:
		rec.fail = true
		rec.rerr = vCausal{errVMock}
	}
	rec.lazy, rec.sh, rec.nmax = true, sh, 13
	h := SSession(rec)
	resp, err := h.Handle(vBG, msg)
	vAssert(len(rec.calls) == 1, "C06: exactly one Session call per request")
	c := rec.calls[0]
	if rec.fail {
		vAssert(err == rec.rerr, "C06: the handler's error is returned unchanged")
		vAssert(resp == nil, "C06: no message together with an error")
		vReach("c06.dispatch.err")
	} else {
		vAssert(err == nil, "C06: success is passed through")
	}
	switch m := msg.(type) {
	case MessageTauth:
		vAssert(c.op == "auth" && vAnd(c.afid == m.Afid, vAnd(vEqStr(c.s1, m.Uname), vEqStr(c.s2, m.Aname))), "C06: Tauth -> Auth(afid, uname, aname)")
		if !rec.fail {
			r, ok := resp.(MessageRauth)
			vAssert(ok && vQidEq(r.Qid, rec.rqid), "C06: Rauth carries the returned qid")
		}
	case MessageTattach:
		vAssert(c.op == "attach" && vAnd(vAnd(c.fid == m.Fid, c.afid == m.Afid), vAnd(vEqStr(c.s1, m.Uname), vEqStr(c.s2, m.Aname))), "C06: Tattach -> Attach(fid, afid, uname, aname)")
		if !rec.fail {
			r, ok := resp.(MessageRattach)
			vAssert(ok && vQidEq(r.Qid, rec.rqid), "C06: Rattach carries the returned qid")
		}
	case MessageTwalk:
		vAssert(c.op == "walk" && vAnd(c.fid == m.Fid, c.afid == m.Newfid) && vStrsEq(c.names, m.Wnames), "C06: Twalk -> Walk(fid, newfid, names)")
		if !rec.fail {
			r, ok := resp.(MessageRwalk)
			vAssert(ok && vMsgEq(r, MessageRwalk{Qids: rec.rqids}), "C06: Rwalk carries the returned qids")
		}
	case MessageTopen:
		vAssert(c.op == "open" && vAnd(c.fid == m.Fid, c.mode == m.Mode), "C06: Topen -> Open(fid, mode)")
		if !rec.fail {
			r, ok := resp.(MessageRopen)
			vAssert(ok && vAnd(vQidEq(r.Qid, rec.rqid), r.IOUnit == rec.riou), "C06: Ropen carries qid and iounit")
		}
	case MessageTcreate:
		vAssert(c.op == "create" && vAnd(vAnd(c.fid == m.Fid, vEqStr(c.s1, m.Name)), vAnd(c.perm == m.Perm, c.mode == m.Mode)), "C06: Tcreate -> Create(fid, name, perm, mode)")
		if !rec.fail {
			r, ok := resp.(MessageRcreate)
			vAssert(ok && vAnd(vQidEq(r.Qid, rec.rqid), r.IOUnit == rec.riou), "C06: Rcreate carries qid and iounit")
		}
	case MessageTread:
		want := uint64(m.Count)
		if want > 13 {
			want = 13
		}
		vAssert(c.op == "read" && vAnd(c.fid == m.Fid, c.offset == int64(m.Offset)), "C06: Tread -> Read(fid, offset)")
		vAssert(uint64(c.plen) == want, "C06: read buffer is min(count, msize-11)")
		if !rec.fail {
			r, ok := resp.(MessageRread)
			n := rec.rn
			if n > c.plen {
				n = c.plen
			}
			vAssert(ok && vEqBytes(r.Data, rec.rdata[:n]), "C06: Rread carries exactly the bytes read")
		}
	case MessageTwrite:
		vAssert(c.op == "write" && vAnd(c.fid == m.Fid, c.offset == int64(m.Offset)) && vEqBytes(c.data, m.Data), "C06: Twrite -> Write(fid, data, offset)")
		if !rec.fail {
			r, ok := resp.(MessageRwrite)
			vAssert(ok && r.Count == uint32(rec.rn), "C06: Rwrite carries the count written")
		}
	case MessageTclunk:
		vAssert(c.op == "clunk" && c.fid == m.Fid, "C06: Tclunk -> Clunk(fid)")
		if !rec.fail {
			_, ok := resp.(MessageRclunk)
			vAssert(ok, "C06: Rclunk")
		}
	case MessageTremove:
		vAssert(c.op == "remove" && c.fid == m.Fid, "C06: Tremove -> Remove(fid)")
		if !rec.fail {
			_, ok := resp.(MessageRremove)
			vAssert(ok, "C06: Rremove")
		}
	case MessageTstat:
		vAssert(c.op == "stat" && c.fid == m.Fid, "C06: Tstat -> Stat(fid)")
		if !rec.fail {
			r, ok := resp.(MessageRstat)
			vAssert(ok && vDirEq(r.Stat, rec.rdir), "C06: Rstat carries the returned Dir")
		}
	case MessageTwstat:
		vAssert(c.op == "wstat" && c.fid == m.Fid && vDirEq(c.dir, m.Stat), "C06: Twstat -> WStat(fid, dir)")
		if !rec.fail {
			_, ok := resp.(MessageRwstat)
			vAssert(ok, "C06: Rwstat")
		}
	}
	vReach("c06.dispatch")
}

func VerifC06_DispatchQuick()    { vC06Dispatch(&vShapeTiny) }
func VerifC06_DispatchThorough() { vC06Dispatch(&vShapeQuick) }

// requests that are not session operations are answered with an error
func VerifC06_DispatchOther() {
	var kinds []FcallType
	for _, k := range vAllKinds {
		t := false
		for _, tk := range vTKinds {
			if tk == k {
				t = true
			}
		}
		if !t {
			kinds = append(kinds, k)
		}
	}
	kind := kinds[ndChoice("kind", len(kinds))]
	rec := &vRecSession{msize: 64}
	resp, err := SSession(rec).Handle(vBG, ndMessage(kind, &vShapeTiny))
	vAssert(err != nil && resp == nil, "C06: non-session messages are answered with an error")
	vAssert(len(rec.calls) == 0, "C06: and dispatch nothing")
	vReach("c06.dispatch.other")
}

// the error reply built for a handler error carries the request's tag and the
// error's text
func VerifC06_ErrorFcall() {
	tag := Tag(ndU16("tag"))
	text := ndString("text", ndChoice("len", 4))
	var err error
	switch ndChoice("kind", 6) {
	case 0:
		err = MessageRerror{Ename: text}
	case 1:
		e := MessageRerror{Ename: text}
		err = &e
	case 3: // an error that is not a 9P error itself but wraps one: its own text counts
		err = vWrapErr{text, MessageRerror{Ename: ndString("inner", 1)}}
	case 4:
		e := MessageRerror{Ename: ndString("inner", 1)}
		err = vWrapErr{text, &e}
	case 5:
		err = vWrapErr{text, vTextErr{ndString("inner", 1)}}
	default:
		err = vTextErr{text}
	}
	fc := newErrorFcall(tag, err)
	vAssert(fc.Type == Rerror && fc.Tag == tag, "C06: error reply has type Rerror and the request's tag")
	re, ok := fc.Message.(MessageRerror)
	vAssert(ok && vEqStr(re.Ename, text), "C06: error reply carries the error's text")
	vReach("c06.errfcall")
}

type vTextErr struct{ s string }

type vWrapErr struct {
	s     string
	inner error
}

func (e vWrapErr) Error() string { return e.s }
func (e vWrapErr) Unwrap() error { return e.inner }

func (e vTextErr) Error() string { return e.s }

// ---- concurrent part: the real serve loop -------------------------------------

// Two pipelined requests with symbolic tags (equal or not); handlers finish in
// every order; results are messages, 9P errors or plain errors.
func vC06Serve(k int) {
	s := newVSrv(k)
	tags := make([]Tag, k)
	marks := make([]uint64, k)
	kinds := make([]int, k)
	pay := make([]uint32, k)
	texts := make([]string, k)
	dup := make([]bool, k)
	for i := 0; i < k; i++ {
		tags[i] = Tag(ndU16("tag"))
		marks[i] = ndU64("marker")
		kinds[i] = ndChoice("reskind", 3)
		pay[i] = ndU32("payload")
		texts[i] = ndString("text", 2)
	}
	script := ndChoice("script", 4)
	if script == 2 {
		// all requests (distinct tags), all handlers released before any reply
		// is collected: completions race with each other and with the write loop
		for i := 0; i < k; i++ {
			for j := 0; j < i; j++ {
				vAssume(tags[i] != tags[j])
			}
			s.ch.fromPeer <- vReq(i, tags[i], marks[i])
		}
		for i := 0; i < k; i++ {
			<-s.h.started
		}
		for i := 0; i < k; i++ {
			s.h.release[i] <- vResFor(kinds[i], pay[i], texts[i])
		}
		seen := make([]bool, k)
		for n := 0; n < k; n++ {
			resp := <-s.ch.toPeer
			m := -1
			for i := 0; i < k; i++ {
				if resp.Tag == tags[i] {
					m = i
				}
			}
			vAssert(m >= 0, "C06: every reply carries the tag of a request")
			if m >= 0 {
				vAssert(!seen[m], "C06: exactly one reply per request")
				seen[m] = true
				vCheckResp(resp, tags[m], kinds[m], pay[m], texts[m], "racing completions")
			}
		}
		vReach("c06.serve.race")
	} else if script == 3 {
		// request 1 arrives while request 0 is completing: in the window between
		// completion and reply only "exactly one reply each" is demanded when the
		// tags are equal
		s.ch.fromPeer <- vReq(0, tags[0], marks[0])
		<-s.h.started
		s.h.release[0] <- vResFor(kinds[0], pay[0], texts[0])
		// environment goroutine collects replies
		got := make(chan *Fcall, 2*k)
		go func() {
			for {
				got <- <-s.ch.toPeer
			}
		}()
		s.ch.fromPeer <- vReq(1, tags[1], marks[1])
		vDrain()
		if s.h.invoked[1] == 1 && !s.h.returned[1] {
			s.h.release[1] <- vResFor(kinds[1], pay[1], texts[1])
		}
		vDrain()
		vAssert(len(got) == 2, "C06: each of the two requests receives exactly one reply")
		r0 := <-got
		r1 := <-got
		if tags[0] != tags[1] {
			a, b := r0, r1
			if r0.Tag != tags[0] {
				a, b = r1, r0
			}
			vCheckResp(a, tags[0], kinds[0], pay[0], texts[0], "overlapping, first")
			vCheckResp(b, tags[1], kinds[1], pay[1], texts[1], "overlapping, second")
			vAssert(s.h.invoked[1] == 1, "C06: a request with a fresh tag is dispatched")
		} else {
			vAssert(vAnd(r0.Tag == tags[0], r1.Tag == tags[0]), "C06: replies carry the requests' tag")
		}
		vReach("c06.serve.window")
		return
	} else if script == 0 {
		// pipelined: all requests first
		for i := 0; i < k; i++ {
			for j := 0; j < i; j++ {
				if !dup[j] && tags[i] == tags[j] {
					dup[i] = true
				}
			}
			s.ch.fromPeer <- vReq(i, tags[i], marks[i])
			if dup[i] {
				// the original is certainly outstanding (its handler is blocked)
				resp := <-s.ch.toPeer
				vAssert(resp.Tag == tags[i], "C06: duplicate-tag error carries the tag")
				re, ok := resp.Message.(MessageRerror)
				vAssert(ok && re == ErrDuptag.(MessageRerror), "C06: a request reusing an outstanding tag is answered with duplicate tag")
				vReach("c06.serve.dup")
			} else {
				got := <-s.h.started
				vAssert(got == i, "C06: requests are dispatched in arrival order")
			}
		}
		// release in every order
		left := []int{}
		for i := 0; i < k; i++ {
			if !dup[i] {
				left = append(left, i)
			}
		}
		for len(left) > 0 {
			p := ndChoice("release", len(left))
			i := left[p]
			left = append(left[:p:p], left[p+1:]...)
			s.h.release[i] <- vResFor(kinds[i], pay[i], texts[i])
			resp := <-s.ch.toPeer
			vCheckResp(resp, tags[i], kinds[i], pay[i], texts[i], "pipelined")
		}
	} else {
		// one at a time: a tag may be reused once its reply has been observed
		for i := 0; i < k; i++ {
			s.ch.fromPeer <- vReq(i, tags[i], marks[i])
			got := <-s.h.started
			vAssert(got == i, "C06: the request is dispatched")
			s.h.release[i] <- vResFor(kinds[i], pay[i], texts[i])
			resp := <-s.ch.toPeer
			vCheckResp(resp, tags[i], kinds[i], pay[i], texts[i], "sequential, tags may repeat")
		}
		vReach("c06.serve.seq")
	}
	for i := 0; i < k; i++ {
		if dup[i] {
			vAssert(s.h.invoked[i] == 0, "C06: a duplicate-tag request is not dispatched")
		} else {
			vAssert(s.h.invoked[i] == 1, "C06: the handler is invoked exactly once per request")
			vAssert(s.h.seenOff[i] == marks[i], "C06: the handler sees the message that was sent")
		}
	}
	s.vNoMoreReplies("C06: exactly one reply per request (a further frame was written)")
	vReach("c06.serve")
}

// A flush request is a request like any other as far as its own tag goes: if
// it reuses a tag that is still outstanding it is answered with duplicate tag,
// nothing is flushed, and the original request is not disturbed.
func VerifC06_DupFlush() {
	s := newVSrv(1)
	t := Tag(ndU16("tag"))
	mark, pay := ndU64("marker"), ndU32("payload")
	s.ch.fromPeer <- vReq(0, t, mark)
	<-s.h.started
	old := Tag(ndU16("oldtag")) // the outstanding tag or any other
	s.ch.fromPeer <- &Fcall{Type: Tflush, Tag: t, Message: MessageTflush{Oldtag: old}}
	r := <-s.ch.toPeer
	vAssert(r.Tag == t, "C06: the reply to the duplicate-tag flush carries its tag")
	re, ok := r.Message.(MessageRerror)
	vAssert(ok && re == ErrDuptag.(MessageRerror), "C06: a flush reusing an outstanding tag is answered with duplicate tag")
	vAssert(s.h.ctxs[0].Err() == nil, "C06: a rejected duplicate-tag request does not disturb the original (its context stays live)")
	s.h.release[0] <- vResFor(0, pay, "")
	r2 := <-s.ch.toPeer
	vCheckResp(r2, t, 0, pay, "", "original after a duplicate-tag flush")
	s.vNoMoreReplies("C06: exactly one reply per request")
	vReach("c06.dupflush")
}

func VerifC06_ServeQuick()    { vC06Serve(2) }
func VerifC06_ServeThorough() { vC06Serve(3) }

// larger configurations, explored delay-bounded (see check spec)
func VerifC06_Serve4() { vC06Serve(4) }
func VerifC06_Serve5() { vC06Serve(5) }

// A version request arriving in the middle of an established session is a
// request like any other for the serve loop: it is answered (here with the
// handler's error), and the requests outstanding at that moment - which were not
// flushed - still receive exactly their own replies.
func VerifC06_VersionMidSession() {
	s := newVSrv(2)
	t1, t2, tv := Tag(ndU16("tag1")), Tag(ndU16("tag2")), Tag(ndU16("tagV"))
	vAssume(vAnd(t1 != t2, vAnd(tv != t1, tv != t2)))
	p1, p2 := ndU32("pay1"), ndU32("pay2")
	s.ch.fromPeer <- vReq(0, t1, ndU64("m1"))
	<-s.h.started
	s.ch.fromPeer <- vReq(1, t2, ndU64("m2"))
	<-s.h.started
	s.ch.fromPeer <- &Fcall{Type: Tversion, Tag: tv, Message: MessageTversion{MSize: ndU32("msize"), Version: "9P2000"}}
	r := <-s.ch.toPeer
	vAssert(r.Tag == tv, "C06: the reply carries the request's tag (version request)")
	vAssert(s.h.ctxs[0].Err() == nil && s.h.ctxs[1].Err() == nil, "C06: a request that was not flushed is not disturbed by other requests")
	s.h.release[0] <- vResFor(0, p1, "")
	s.h.release[1] <- vResFor(0, p2, "")
	for i := 0; i < 2; i++ {
		r := <-s.ch.toPeer // a reply that never comes is reported as a deadlock
		if r.Tag == t1 {
			vCheckResp(r, t1, 0, p1, "", "first request")
		} else {
			vCheckResp(r, t2, 0, p2, "", "second request")
		}
	}
	s.vNoMoreReplies("C06: each request receives exactly one reply")
	vReach("c06.versionmid")
}
