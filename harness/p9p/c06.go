package p9p

// C06 (sequential part) - the session handler dispatches each request to
// exactly the matching Session method with exactly the request's arguments and
// builds the reply from exactly what the method returned.

var vTKinds = []FcallType{Tauth, Tattach, Twalk, Topen, Tcreate, Tread, Twrite, Tclunk, Tremove, Tstat, Twstat}

func vC06Dispatch(sh *vShape) {
	kind := vTKinds[ndChoice("kind", len(vTKinds))]
	msg := ndMessage(kind, sh)
	rec := &vRecSession{msize: 24}
	switch ndChoice("fail", 3) {
	case 1:
		rec.fail = true
		rec.rerr = MessageRerror{Ename: ndString("etext", 2)}
	case 2:
		rec.fail = true
		rec.rerr = vCausal{errVMock}
	}
	rec.lazy, rec.sh, rec.nmax = true, sh, 13
	h := SSession(rec)
	resp, err := h.Handle(vBG, msg)
	vAssert(len(rec.calls) == 1, "C06: exactly one Session call per request")
	c := rec.calls[0]
	if rec.fail {
		vAssert(err == rec.rerr, "C06: the handler's error is returned unchanged")
		vAssert(resp == nil, "C06: no message together with an error")
		vReach("c06.dispatch.err")
	} else {
		vAssert(err == nil, "C06: success is passed through")
	}
	switch m := msg.(type) {
	case MessageTauth:
		vAssert(c.op == "auth" && vAnd(c.afid == m.Afid, vAnd(vEqStr(c.s1, m.Uname), vEqStr(c.s2, m.Aname))), "C06: Tauth -> Auth(afid, uname, aname)")
		if !rec.fail {
			r, ok := resp.(MessageRauth)
			vAssert(ok && vQidEq(r.Qid, rec.rqid), "C06: Rauth carries the returned qid")
		}
	case MessageTattach:
		vAssert(c.op == "attach" && vAnd(vAnd(c.fid == m.Fid, c.afid == m.Afid), vAnd(vEqStr(c.s1, m.Uname), vEqStr(c.s2, m.Aname))), "C06: Tattach -> Attach(fid, afid, uname, aname)")
		if !rec.fail {
			r, ok := resp.(MessageRattach)
			vAssert(ok && vQidEq(r.Qid, rec.rqid), "C06: Rattach carries the returned qid")
		}
	case MessageTwalk:
		vAssert(c.op == "walk" && vAnd(c.fid == m.Fid, c.afid == m.Newfid) && vStrsEq(c.names, m.Wnames), "C06: Twalk -> Walk(fid, newfid, names)")
		if !rec.fail {
			r, ok := resp.(MessageRwalk)
			vAssert(ok && vMsgEq(r, MessageRwalk{Qids: rec.rqids}), "C06: Rwalk carries the returned qids")
		}
	case MessageTopen:
		vAssert(c.op == "open" && vAnd(c.fid == m.Fid, c.mode == m.Mode), "C06: Topen -> Open(fid, mode)")
		if !rec.fail {
			r, ok := resp.(MessageRopen)
			vAssert(ok && vAnd(vQidEq(r.Qid, rec.rqid), r.IOUnit == rec.riou), "C06: Ropen carries qid and iounit")
		}
	case MessageTcreate:
		vAssert(c.op == "create" && vAnd(vAnd(c.fid == m.Fid, vEqStr(c.s1, m.Name)), vAnd(c.perm == m.Perm, c.mode == m.Mode)), "C06: Tcreate -> Create(fid, name, perm, mode)")
		if !rec.fail {
			r, ok := resp.(MessageRcreate)
			vAssert(ok && vAnd(vQidEq(r.Qid, rec.rqid), r.IOUnit == rec.riou), "C06: Rcreate carries qid and iounit")
		}
	case MessageTread:
		want := uint64(m.Count)
		if want > 13 {
			want = 13
		}
		vAssert(c.op == "read" && vAnd(c.fid == m.Fid, c.offset == int64(m.Offset)), "C06: Tread -> Read(fid, offset)")
		vAssert(uint64(c.plen) == want, "C06: read buffer is min(count, msize-11)")
		if !rec.fail {
			r, ok := resp.(MessageRread)
			n := rec.rn
			if n > c.plen {
				n = c.plen
			}
			vAssert(ok && vEqBytes(r.Data, rec.rdata[:n]), "C06: Rread carries exactly the bytes read")
		}
	case MessageTwrite:
		vAssert(c.op == "write" && vAnd(c.fid == m.Fid, c.offset == int64(m.Offset)) && vEqBytes(c.data, m.Data), "C06: Twrite -> Write(fid, data, offset)")
		if !rec.fail {
			r, ok := resp.(MessageRwrite)
			vAssert(ok && r.Count == uint32(rec.rn), "C06: Rwrite carries the count written")
		}
	case MessageTclunk:
		vAssert(c.op == "clunk" && c.fid == m.Fid, "C06: Tclunk -> Clunk(fid)")
		if !rec.fail {
			_, ok := resp.(MessageRclunk)
			vAssert(ok, "C06: Rclunk")
		}
	case MessageTremove:
		vAssert(c.op == "remove" && c.fid == m.Fid, "C06: Tremove -> Remove(fid)")
		if !rec.fail {
			_, ok := resp.(MessageRremove)
			vAssert(ok, "C06: Rremove")
		}
	case MessageTstat:
		vAssert(c.op == "stat" && c.fid == m.Fid, "C06: Tstat -> Stat(fid)")
		if !rec.fail {
			r, ok := resp.(MessageRstat)
			vAssert(ok && vDirEq(r.Stat, rec.rdir), "C06: Rstat carries the returned Dir")
		}
	case MessageTwstat:
		vAssert(c.op == "wstat" && c.fid == m.Fid && vDirEq(c.dir, m.Stat), "C06: Twstat -> WStat(fid, dir)")
		if !rec.fail {
			_, ok := resp.(MessageRwstat)
			vAssert(ok, "C06: Rwstat")
		}
	}
	vReach("c06.dispatch")
}

func VerifC06_DispatchQuick()    { vC06Dispatch(&vShapeTiny) }
func VerifC06_DispatchThorough() { vC06Dispatch(&vShapeQuick) }

// requests that are not session operations are answered with an error
func VerifC06_DispatchOther() {
	var kinds []FcallType
	for _, k := range vAllKinds {
		t := false
		for _, tk := range vTKinds {
			if tk == k {
				t = true
			}
		}
		if !t {
			kinds = append(kinds, k)
		}
	}
	kind := kinds[ndChoice("kind", len(kinds))]
	rec := &vRecSession{msize: 64}
	resp, err := SSession(rec).Handle(vBG, ndMessage(kind, &vShapeTiny))
	vAssert(err != nil && resp == nil, "C06: non-session messages are answered with an error")
	vAssert(len(rec.calls) == 0, "C06: and dispatch nothing")
	vReach("c06.dispatch.other")
}

// the error reply built for a handler error carries the request's tag and the
// error's text
func VerifC06_ErrorFcall() {
	tag := Tag(ndU16("tag"))
	text := ndString("text", ndChoice("len", 4))
	var err error
	switch ndChoice("kind", 3) {
	case 0:
		err = MessageRerror{Ename: text}
	case 1:
		e := MessageRerror{Ename: text}
		err = &e
	default:
		err = vTextErr{text}
	}
	fc := newErrorFcall(tag, err)
	vAssert(fc.Type == Rerror && fc.Tag == tag, "C06: error reply has type Rerror and the request's tag")
	re, ok := fc.Message.(MessageRerror)
	vAssert(ok && vEqStr(re.Ename, text), "C06: error reply carries the error's text")
	vReach("c06.errfcall")
}

type vTextErr struct{ s string }

func (e vTextErr) Error() string { return e.s }
