package p9p

// C10 - version negotiation yields one msize that both ends then honour.

func vMin(a, b uint64) uint64 {
	if a < b {
		return a
	}
	return b
}

// server side arithmetic: every proposal (32 bits), every own maximum in
// [24, 2^31), every version string of 0..7 bytes.
func VerifC10_ServerArith() {
	own := ndU32("own")
	vAssume(vAnd(own >= 24, own < 1<<31))
	prop := ndU32("proposal")
	ver := ndString("version", ndChoice("verlen", 8))
	ch := &vScriptChannel{msize: int(own)}
	ch.script = []*Fcall{newFcall(NOTAG, MessageTversion{MSize: prop, Version: ver})}
	err := servernegotiate(vBG, ch, DefaultVersion)
	vAssert(err == nil, "C10: server negotiation over a willing channel succeeds")
	vAssert(len(ch.written) == 1, "C10: exactly one reply")
	rv, ok := ch.written[0].Message.(MessageRversion)
	vAssert(ok, "C10: reply is Rversion")
	vAssert(ch.written[0].Tag == NOTAG, "C10: Rversion carries NOTAG")
	want := vMin(uint64(prop), uint64(own))
	vAssert(uint64(rv.MSize) == want, "C10: server answers min(proposal, own maximum)")
	vAssert(uint64(ch.MSize()) == want, "C10: server adopts the msize it answered")
	vAssert(vAnd(rv.MSize <= prop, rv.MSize <= own), "C10: never more than proposed nor own maximum")
	vObserve("msize", rv.MSize)
	vReach("c10.server.arith")
}

// client side arithmetic
func VerifC10_ClientArith() {
	own := ndU32("own")
	vAssume(vAnd(own >= 24, own < 1<<31))
	ans := ndU32("answer")
	ch := &vScriptChannel{msize: int(own)}
	sameVer := ndBool("samever")
	ver := DefaultVersion
	if !sameVer {
		ver = "9P2000.u"
	}
	ch.script = []*Fcall{newFcall(NOTAG, MessageRversion{MSize: ans, Version: ver})}
	v, err := clientnegotiate(vBG, ch, DefaultVersion)
	vAssert(len(ch.written) == 1, "C10: client sends one Tversion")
	tv, ok := ch.written[0].Message.(MessageTversion)
	vAssert(ok, "C10: client's first message is Tversion")
	vAssert(uint64(tv.MSize) == uint64(own), "C10: client proposes its own msize")
	if sameVer {
		vAssert(err == nil, "C10: client accepts a matching version")
		vAssert(v == DefaultVersion, "C10: negotiated version")
		vAssert(uint64(ch.MSize()) == vMin(uint64(own), uint64(ans)), "C10: client adopts min(own, answer)")
		vAssert(uint64(ch.MSize()) <= uint64(own), "C10: client never adopts more than it proposed")
		vReach("c10.client.arith")
	} else {
		vAssert(err != nil, "C10: client rejects another version")
		vReach("c10.client.badver")
	}
	vObserve("msize", ch.MSize())
}

// client: any other first reply is an error
func VerifC10_ClientOther() {
	var kinds []FcallType
	for _, k := range vAllKinds {
		if k != Rversion {
			kinds = append(kinds, k)
		}
	}
	kind := kinds[ndChoice("kind", len(kinds))]
	ch := &vScriptChannel{msize: 8192}
	ch.script = []*Fcall{{Type: kind, Tag: Tag(ndU16("tag")), Message: ndMessage(kind, &vShapeTiny)}}
	_, err := clientnegotiate(vBG, ch, DefaultVersion)
	vAssert(err != nil, "C10: a first reply other than Rversion is an error")
	vAssert(ch.MSize() == 8192, "C10: msize untouched by a failed negotiation")
	vReach("c10.client.other")
}

var vC10Proposals = []uint32{0, 4, 18, 19, 23, 24, 100, 65535, 65536, 65537, 1 << 31, 0xFFFFFFFF}

// through the real channel, boundary proposals: proposals that cannot carry
// the 19-byte Rversion are refused with nothing written; afterwards frames of
// exactly the agreed msize are accepted, one byte more is an overflow of 1, and
// a long write is cut to exactly msize.
func vC10Real(props []uint32) {
	prop := props[ndChoice("proposal", len(props))]
	tv := refEncode(Tversion, NOTAG, MessageTversion{MSize: prop, Version: DefaultVersion})
	conn := &vCaptureConn{in: vFrame(tv)}
	ch := newChannel(conn, codec9p{}, DefaultMSize)
	err := servernegotiate(vBG, ch, DefaultVersion)
	agreed := int(vMin(uint64(prop), uint64(DefaultMSize)))
	if agreed < 19 {
		vAssert(err != nil, "C10: a proposal that cannot carry the Rversion is refused")
		vAssert(len(conn.out) == 0, "C10: refused => nothing written")
		vReach("c10.real.refused")
		return
	}
	vAssert(err == nil, "C10: negotiation succeeds")
	want := vFrame(refEncode(Rversion, NOTAG, MessageRversion{MSize: uint32(agreed), Version: DefaultVersion}))
	vAssertEqBytes(conn.out, want, "C10: Rversion on the wire carries min(proposal, 65536)")
	vAssert(ch.MSize() == agreed, "C10: channel msize is the agreed one")
	if agreed < 24 {
		vReach("c10.real.tiny")
		return
	}
	// emit: long Twrite is cut to exactly msize
	conn.out = nil
	data := make([]byte, agreed) // longer than fits
	err = ch.WriteFcall(vBG, newFcall(5, MessageTwrite{Fid: 1, Offset: 0, Data: data}))
	vAssert(err == nil, "C10: Twrite after negotiation is sent")
	vAssert(len(conn.out) == agreed, "C10: no frame longer than the agreed msize (Twrite cut to exactly msize)")
	// accept: frame of exactly msize
	body := refEncode(Rread, 7, MessageRread{Data: make([]byte, agreed-11)})
	conn.in = append(vFrame(body), vFrame(append(body, 0))...)
	var fc Fcall
	err = ch.ReadFcall(vBG, &fc)
	vAssert(err == nil, "C10: a frame of exactly the agreed msize is accepted")
	rr, ok := fc.Message.(MessageRread)
	vAssert(ok && len(rr.Data) == agreed-11, "C10: full-size Rread delivered")
	err = ch.ReadFcall(vBG, &fc)
	vAssert(Overflow(err) == 1, "C10: one byte more than the agreed msize is an overflow of 1")
	vReach("c10.real.after")
}

func VerifC10_RealQuick()    { vC10Real([]uint32{0, 18, 19, 24, 100, 0xFFFFFFFF}) }
func VerifC10_RealThorough() { vC10Real(vC10Proposals) }

// a connection whose first message is not a version request is refused
// without dispatching anything.
func VerifC10_Refuse() {
	var frame []byte
	sel := ndChoice("first", len(vAllKinds))
	if vAllKinds[sel] == Tversion {
		// garbage instead
		frame = vFrame(append([]byte{0xEE}, ndBytes("junk", 6)...))
	} else {
		k := vAllKinds[sel]
		frame = vFrame(refEncode(k, Tag(ndU16("tag")), ndMessage(k, &vShapeTiny)))
	}
	conn := &vCaptureConn{in: frame}
	h := &vRecHandler{}
	err := ServeConn(vBG, conn, h)
	vAssert(err != nil, "C10: ServeConn refuses a connection not starting with Tversion")
	vAssert(h.handled == 0, "C10: nothing dispatched to the handler")
	vAssert(len(conn.out) == 0, "C10: nothing written to a refused connection")
	vReach("c10.refuse")
}

// too-small proposal through ServeConn itself
func VerifC10_RefuseSmall() {
	prop := ndU32("proposal")
	vAssume(prop < 19)
	tv := refEncode(Tversion, NOTAG, MessageTversion{MSize: prop, Version: DefaultVersion})
	conn := &vCaptureConn{in: vFrame(tv)}
	h := &vRecHandler{}
	err := ServeConn(vBG, conn, h)
	vAssert(err != nil, "C10: ServeConn refuses an msize that cannot carry the Rversion")
	vAssert(h.handled == 0, "C10: nothing dispatched")
	vAssert(len(conn.out) == 0, "C10: nothing written")
	vReach("c10.refuse.small")
}
