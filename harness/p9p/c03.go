package p9p

// C03 - inbound framing stays synchronised, frame-isolated and crash-free.
// Channels are built with the public NewChannel over a scripted in-memory conn.
// The per-frame decode oracle is the codec applied to exactly the frame's own
// body bytes (the codec itself is the subject of C01/C04).

// vC03Clamp applies the documented inbound Tread clamp: the count is lowered
// so that the largest reply (11+count) fits in msize.
func vC03Clamp(m Message, msize int) Message {
	if tr, ok := m.(MessageTread); ok {
		if uint64(tr.Count)+11 > uint64(msize) {
			tr.Count = uint32(msize - 11)
		}
		return tr
	}
	return m
}

// vC03Check reads one frame from ch and compares the outcome with the
// reference framing rule applied to (size, avail bytes after the prefix).
// It returns false when the stream is no longer in a defined state.
// messages delivered so far, with the message each must (still) be: a message
// handed to the caller must not change when later frames are read
type vC03HeldMsg struct {
	fc   *Fcall
	want Message
}

var vC03Held []vC03HeldMsg

func vC03Recheck() {
	for _, h := range vC03Held {
		vAssert(vMsgEq(h.want, h.fc.Message), "C03: a delivered message depends only on its own frame's bytes (it does not change when later frames are read)")
	}
}

func vC03Check(ch Channel, size uint32, after []byte, msize int) bool {
	fc := new(Fcall)
	err := ch.ReadFcall(vBG, fc)
	vObserve("err", err != nil)
	if size < 4 {
		vAssert(err != nil, "C03: impossible length (<4) yields an error")
		vAssert(Overflow(err) == 0, "C03: an impossible length is not an overflow")
		vReach("c03.tiny")
		// the length prefix is all there is to such a frame: the next frame
		// starts right after it (checked by the resync harness)
		return true
	}
	need := uint64(size) - 4
	if need > uint64(len(after)) {
		vAssert(err != nil, "C03: stream ending mid-frame yields an error")
		vReach("c03.midframe")
		return false
	}
	if uint64(size) > uint64(msize) {
		vAssert(err != nil, "C03: oversize frame yields an error")
		vAssert(Overflow(err) == int(size)-msize, "C03: overflow of exactly the excess")
		vReach("c03.oversize")
		return true
	}
	body := after[:vConcrete(int(need))]
	var want Fcall
	werr := NewCodec().Unmarshal(body, &want)
	if werr != nil {
		vAssert(err != nil, "C03: undecodable body yields an error (outcome depends only on the frame's own bytes)")
		vReach("c03.undecodable")
		return true
	}
	vAssert(err == nil, "C03: well-formed frame within msize yields its message")
	vAssert(vAnd(fc.Type == want.Type, fc.Tag == want.Tag), "C03: type and tag of the frame")
	vAssert(vMsgEq(vC03Clamp(want.Message, msize), fc.Message), "C03: message decoded from exactly this frame's bytes")
	vC03Held = append(vC03Held, vC03HeldMsg{fc, vC03Clamp(want.Message, msize)})
	vObserve("type", uint8(fc.Type))
	vReach("c03.ok")
	return true
}

// small well-formed frames that fit msize 24
func vC03SmallMsg(sel int) (FcallType, Message) {
	switch sel {
	case 0:
		return Tclunk, MessageTclunk{Fid: Fid(ndU32("fid"))}
	case 1:
		return Tread, MessageTread{Fid: Fid(ndU32("fid")), Offset: ndU64("offset"), Count: ndU32("count")}
	case 2:
		return Rerror, MessageRerror{Ename: ndString("ename", 2)}
	case 3:
		return Twrite, MessageTwrite{Fid: Fid(ndU32("fid")), Offset: ndU64("offset"), Data: ndBytes("data", 1)}
	case 4:
		return Rwalk, MessageRwalk{Qids: []Qid{ndQid("q")}}
	}
	return Tflush, MessageTflush{Oldtag: Tag(ndU16("oldtag"))}
}

const vC03NSmall = 6

// A: one frame with a symbolic size prefix; the body is a well-formed small
// message cut short by 0..5 bytes or followed by extra bytes, so that sizes
// around the true length (where stale buffer bytes could leak) are reached.
func vC03Framing(msize int, ssel int) {
	vC03Held = nil
	kind, msg := vC03SmallMsg(ssel)
	enc := refEncode(kind, Tag(ndU16("tag")), msg)
	cut := ndChoice("cut", 7) // 0..5 bytes removed, 6 = two extra bytes appended
	after := append([]byte(nil), enc...)
	if cut <= 5 {
		if cut > len(after) {
			cut = len(after)
		}
		after = after[:len(after)-cut]
	} else {
		after = append(after, ndBytes("extra", 2)...)
	}
	sz := ndBytes("size", 4)
	size := vLE32(sz)
	conn := &vCaptureConn{in: append(append([]byte(nil), sz...), after...)}
	ch := NewChannel(conn, msize)
	// prime the read buffer with an earlier, longer frame so that stale bytes
	// differ from zero (isolation): a valid Tread.
	if ndChoice("primed", 2) == 1 {
		pre := vFrame(refEncode(Tread, 1, MessageTread{Fid: 0xAABBCCDD, Offset: 0x1122334455667788, Count: 0x99}))
		conn.in = append(pre, conn.in...)
		var fc0 Fcall
		err0 := ch.ReadFcall(vBG, &fc0)
		vAssert(err0 == nil, "C03: priming frame is delivered")
	}
	vC03Check(ch, size, after, msize)
}

func VerifC03_FramingQuick() { vC03Framing(24, ndChoice("small", 2)) }
func VerifC03_FramingThorough() {
	vC03Framing([]int{24, 32, 64}[ndChoice("msize", 3)], ndChoice("small", vC03NSmall))
}

// B: resynchronisation and isolation: after any first frame F1, a valid second
// frame of each small kind is delivered exactly.
func vC03Resync(msize int, sh *vShape, nsmall int) {
	var f1 []byte
	var f1size uint32
	var f1after []byte
	switch ndChoice("f1", 5) {
	case 4: // impossible length: the 4-byte prefix alone
		f1size = uint32(ndChoice("tinysize", 4))
		f1after = nil
	case 0: // valid
		k, m := vC03SmallMsg(ndChoice("f1small", nsmall))
		body := refEncode(k, Tag(ndU16("tag1")), m)
		f1after = body
		f1size = uint32(len(body) + 4)
	case 1: // oversize by k, whole frame present
		k := 1 + ndChoice("over", 9)
		f1after = ndBytes("big", msize-4+k)
		f1size = uint32(msize + k)
	case 2: // undecodable body: unknown type byte
		f1after = append([]byte{0xFF}, ndBytes("junk", 5)...)
		f1size = uint32(len(f1after) + 4)
	case 3: // body shorter than its message needs: Tclunk with 2 of 4 fid bytes
		f1after = []byte{byte(Tclunk), 7, 0, 0xAA, 0xBB}
		f1size = uint32(len(f1after) + 4)
	}
	f1 = append(le32(nil, f1size), f1after...)
	k2, m2 := vC03SmallMsg(ndChoice("f2small", nsmall))
	tag2 := Tag(ndU16("tag2"))
	body2 := refEncode(k2, tag2, m2)
	f2 := vFrame(body2)
	conn := &vCaptureConn{in: append(append([]byte(nil), f1...), f2...)}
	conn.chunk = []int{0, 1, 3}[ndChoice("chunk", 3)]
	ch := NewChannel(conn, msize)
	vC03Held = nil
	if vC03Check(ch, f1size, append(append([]byte(nil), f1after...), f2...), msize) {
		ok := vC03Check(ch, uint32(len(body2)+4), body2, msize)
		vAssert(ok, "C03: second frame processed")
		vC03Recheck()
		vReach("c03.resync")
	}
}

func VerifC03_ResyncQuick()    { vC03Resync(24, &vShapeTiny, 3) }
func VerifC03_ResyncThorough() { vC03Resync([]int{24, 32}[ndChoice("msize", 2)], &vShapeTiny, vC03NSmall) }

// C: chunking: the same two-frame stream delivered whole, byte-at-a-time and
// split at a forked position gives the same results.
func VerifC03_Chunking() {
	msize := 24
	k1, m1 := vC03SmallMsg(ndChoice("a", 3))
	k2, m2 := vC03SmallMsg(ndChoice("b", 3))
	b1 := refEncode(k1, Tag(ndU16("t1")), m1)
	b2 := refEncode(k2, Tag(ndU16("t2")), m2)
	stream := append(vFrame(b1), vFrame(b2)...)
	split := 1 + ndChoice("split", len(stream)-1)
	conn := &vSplitConn{in: stream, split: split}
	ch := NewChannel(conn, msize)
	vC03Check(ch, uint32(len(b1)+4), append(append([]byte(nil), b1...), vFrame(b2)...), msize)
	vC03Check(ch, uint32(len(b2)+4), b2, msize)
	vReach("c03.chunking")
}

// D: inbound Tread clamp for every count and every msize in [24, 2^16]
func VerifC03_TreadClamp() {
	m := ndU32("msize")
	vAssume(vAnd(m >= 24, m <= 1<<16))
	count := ndU32("count")
	body := refEncode(Tread, Tag(ndU16("tag")), MessageTread{Fid: Fid(ndU32("fid")), Offset: ndU64("off"), Count: count})
	conn := &vCaptureConn{in: vFrame(body)}
	ch := NewChannel(conn, 64)
	ch.(*channel).msize = int(m) // keep msize symbolic (rdbuf stays 64 bytes; the frame is 23)
	var fc Fcall
	err := ch.ReadFcall(vBG, &fc)
	vAssert(err == nil, "C03: Tread frame is delivered")
	tr, ok := fc.Message.(MessageTread)
	vAssert(ok, "C03: Tread decodes as Tread")
	vAssert(tr.Count <= count, "C03: inbound count never raised")
	vAssert(uint64(tr.Count)+11 <= uint64(m), "C03: reply permitted by the received count fits msize")
	vAssert(vImplies(uint64(count)+11 <= uint64(m), tr.Count == count), "C03: fitting count unchanged")
	vReach("c03.clamp")
}


// E: a channel created with a larger msize and lowered afterwards (as version
// negotiation does) frames exactly like a channel created with the lower one.
func VerifC03_Lowered() {
	lower := []int{24, 32}[ndChoice("lower", 2)]
	conn := &vCaptureConn{}
	ch := NewChannel(conn, 64)
	ch.SetMSize(lower)
	sel := ndChoice("frame", 3)
	switch sel {
	case 0: // oversize by k: overflow of exactly the excess w.r.t. the lowered msize
		k := 1 + ndChoice("over", 12)
		body := ndBytes("big", lower-4+k)
		size := uint32(lower + k)
		conn.in = append(le32(nil, size), body...)
		vC03Check(ch, size, body, lower)
	case 1: // a Twrite longer than the lowered msize but shorter than the original
		data := ndBytes("data", lower-23+1+ndChoice("extra", 8))
		body := refEncode(Twrite, Tag(ndU16("tag")), MessageTwrite{Fid: Fid(ndU32("fid")), Offset: ndU64("off"), Data: data})
		conn.in = vFrame(body)
		vC03Check(ch, uint32(len(body)+4), body, lower)
	case 2: // a frame of exactly the lowered msize
		data := ndBytes("data", lower-23)
		body := refEncode(Twrite, Tag(ndU16("tag")), MessageTwrite{Fid: Fid(ndU32("fid")), Offset: ndU64("off"), Data: data})
		conn.in = vFrame(body)
		vC03Check(ch, uint32(len(body)+4), body, lower)
	}
	vReach("c03.lowered")
}

// ---- long streams of large frames over larger msize --------------------------
// k frames in a row on one channel; each is a Twrite (or Rread) whose total size
// is drawn from a set around msize/2, msize and 2*msize, or a frame with an
// unknown type byte; contents are a concrete pattern with symbolic first/last
// byte, tags and fids symbolic.  The conn delivers the stream whole, in 7-byte
// or in 1500-byte pieces.  Every frame must be handled by the reference framing
// rule, whatever came before it.
func vC03Stream(msizes []int, k int, nsizes int, nkinds int, chunks []int) {
	msize := msizes[ndChoice("msize", len(msizes))]
	conn := &vCaptureConn{chunk: chunks[ndChoice("chunk", len(chunks))]}
	type fr struct {
		size  uint32
		after []byte
	}
	var frames []fr
	for i := 0; i < k; i++ {
		total := []int{23, msize/2 + 100, msize, msize + 1, 2*msize - 200, msize - 1, msize + msize/8}[ndChoice("size", nsizes)]
		var enc []byte
		switch []int{0, 2, 1}[ndChoice("kind", nkinds)] {
		case 0:
			enc = refEncode(Twrite, Tag(ndU16("tag")), MessageTwrite{Fid: Fid(ndU32("fid")), Offset: ndU64("offset"), Data: vBigBytes("data", total-23)})
		case 1:
			n := total - 11
			enc = refEncode(Rread, Tag(ndU16("tag")), MessageRread{Data: vBigBytes("data", n)})
		case 2:
			enc = vBigBytes("junk", total-4)
			enc[0] = 0xEE // no such message type
		}
		f := vFrame(enc)
		conn.in = append(conn.in, f...)
		frames = append(frames, fr{uint32(len(f)), enc})
	}
	ch := NewChannel(conn, msize)
	vC03Held = nil
	for _, f := range frames {
		if !vC03Check(ch, f.size, f.after, msize) {
			break
		}
	}
	vC03Recheck()
	vReach("c03.stream")
}

func VerifC03_StreamQuick() { vC03Stream([]int{4097, 8192}, 3, 5, 2, []int{0, 1500}) }
func VerifC03_StreamThorough() {
	vC03Stream([]int{4096, 4097, 8192, 16384}, 3, 7, 3, []int{0, 1500})
}
func VerifC03_StreamSmall() { vC03Stream([]int{300}, 3, 7, 3, []int{0, 7}) }
func VerifC03_Stream4() { vC03Stream([]int{4097, 16384}, 4, 5, 2, []int{0}) }

// msize lowered BETWEEN two reads (as version negotiation does) while the
// connection has already delivered bytes of the following frame: frame A, then
// SetMSize(lower), then frame B of each small kind; the conn hands over the
// stream whole, or split one byte into B's header, or split inside B's body.
func VerifC03_LoweredBetween() {
	lower := []int{24, 32}[ndChoice("lower", 2)]
	kindA, msgA := vC03SmallMsg(ndChoice("a", 2))
	encA := refEncode(kindA, Tag(ndU16("tagA")), msgA)
	kindB, msgB := vC03SmallMsg(ndChoice("b", 3))
	encB := refEncode(kindB, Tag(ndU16("tagB")), msgB)
	fa, fb := vFrame(encA), vFrame(encB)
	conn := &vCaptureConn{in: append(append([]byte(nil), fa...), fb...)}
	switch ndChoice("split", 4) {
	case 1:
		conn.chunk = len(fa) // exactly one frame per read
	case 2:
		conn.chunk = len(fa) + 1
	case 3:
		conn.chunk = len(fa) + 6
	}
	ch := NewChannel(conn, 64)
	vC03Held = nil
	vC03Check(ch, uint32(len(fa)), encA, 64)
	ch.SetMSize(lower)
	vC03Check(ch, uint32(len(fb)), encB, lower)
	vC03Recheck()
	vReach("c03.loweredbetween")
}
