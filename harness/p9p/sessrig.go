package p9p

// Rig for C08 / C13 / C14: one operation from a symbolic, representation-
// invariant pre-state of the server session's fid table, compared with a
// reference fid table.

import "context"

// reference fid table
type vFidRec struct {
	fid  Fid
	ent  *vStubEnt
	open bool
	mode Flag
	file *vStubFile // for open files
}

type vRig struct {
	// lite: a small concrete alphabet (fids 0..1, eight operations, at most one
	// walk name, no file-system failures) for long sequences
	lite  bool
	fs    *vStubFS
	sess  *session
	recs  []vFidRec   // reference table
	bound []*vStubEnt // every entry that has ever been bound to a fid
}

func (r *vRig) find(f Fid) int {
	for i := range r.recs {
		if r.recs[i].fid == f {
			return i
		}
	}
	return -1
}

func (r *vRig) del(i int) {
	var out []vFidRec
	out = append(out, r.recs[:i]...)
	out = append(out, r.recs[i+1:]...)
	r.recs = out
}

// vNewRig builds the pre-state: n pre-bound fids with symbolic, pairwise
// distinct values (not NOFID), each a directory or a file, unopened or open
// with a symbolic mode.
func vNewRig(n int) *vRig {
	fs := &vStubFS{}
	r := &vRig{fs: fs, sess: SFileSys(fs).(*session)}
	for i := 0; i < n; i++ {
		fid := Fid(ndU32("pre.fid"))
		vAssume(fid != NOFID)
		for j := range r.recs {
			vAssume(fid != r.recs[j].fid)
		}
		ent := fs.newEnt(ndChoice("pre.isdir", 2) == 1)
		rec := vFidRec{fid: fid, ent: ent}
		sf := &SFid{Ent: ent}
		if ndChoice("pre.open", 2) == 1 {
			rec.open = true
			rec.mode = Flag(ndU8("pre.mode"))
			sf.Mode = rec.mode
			if ent.dir {
				sf.File = NewReaddir(NewCodec(), func(context.Context) ([]Dir, error) { return nil, nil })
			} else {
				ent.file = &vStubFile{ent: ent}
				rec.file = ent.file
				sf.File = ent.file
			}
		}
		r.sess.refs.Store(fid, sf)
		r.recs = append(r.recs, rec)
		r.bound = append(r.bound, ent)
	}
	return r
}

// vCheckTable compares the session's real fid table with the reference table.
func (r *vRig) vCheckTable(where string) {
	n, all := 0, 0
	r.sess.refs.Range(func(k, v interface{}) bool {
		sf := v.(*SFid)
		all++
		if sf.Ent != nil {
			n++
		}
		return true
	})
	vAssert(n == len(r.recs), "C08: the set of bound fids matches the reference table ("+where+")")
	// an unbound fid must be reusable: between operations the table holds no
	// placeholder (an entry without an Ent would make attach/walk onto that
	// fid fail with duplicate fid although the fid is unbound)
	vAssert(all == n, "C08: an unbound fid leaves nothing behind in the fid table and may be reused ("+where+")")
	for _, rec := range r.recs {
		v, ok := r.sess.refs.Load(rec.fid)
		vAssert(ok, "C08: a fid bound in the reference table is bound in the session ("+where+")")
		if !ok {
			continue
		}
		sf := v.(*SFid)
		vAssert(sf.Ent == Dirent(rec.ent), "C08: fid bound to the expected entry ("+where+")")
		if rec.open {
			vAssert(sf.File != nil, "C08: fid open as in the reference table ("+where+")")
			vAssert(sf.Mode == rec.mode, "C08: open mode as in the reference table ("+where+")")
			if rec.file != nil {
				vAssert(sf.File == File(rec.file), "C08: fid open on the expected file ("+where+")")
			}
		} else {
			vAssert(sf.File == nil, "C08: fid unopened as in the reference table ("+where+")")
		}
		// C13: never released while bound
		vAssert(rec.ent.released == 0, "C13: an entry is never released while it stays bound ("+where+")")
	}
}

// vCheckUnlocked: C14 - after any operation returns no fid is left locked.
func (r *vRig) vCheckUnlocked() {
	r.sess.refs.Range(func(k, v interface{}) bool {
		sf := v.(*SFid)
		ok := sf.TryLock()
		vAssert(ok, "C14: no fid is left locked after an operation returns")
		if ok {
			sf.Unlock()
		}
		return true
	})
}

// vCheckReleased: C13 - after Stop every entry that was ever bound has been
// released exactly once and nothing remains bound.
func (r *vRig) vStopAndAccount() {
	r.sess.Stop(nil)
	nb := 0
	r.sess.refs.Range(func(k, v interface{}) bool {
		if v.(*SFid).Ent != nil {
			nb++
		}
		return true
	})
	vAssert(nb == 0, "C13: after stop nothing remains bound")
	for _, e := range r.bound {
		vAssert(e.released >= 1, "C13: every entry that was bound is released (leak)")
		vAssert(e.released <= 1, "C13: no entry is released twice")
	}
	vAssert(r.fs.viol == "", "C13: no entry is used after its release / no dummy is used: "+r.fs.viol)
}

const vNOps = 11

// vStep performs one session operation with symbolic arguments and steps the
// reference table by the rules of the property.
func (r *vRig) vStep() {
	s := r.sess
	var op int
	var fid Fid
	if r.lite {
		op = ndChoice("op", 8)
		fid = Fid(ndChoice("op.fid", 2))
	} else {
		op = ndChoice("op", vNOps)
		fid = Fid(ndU32("op.fid"))
	}
	i := r.find(fid)
	switch op {
	case 0: // Attach
		afid := NOFID
		afidBound := -1
		if !r.lite && ndChoice("op.useafid", 2) == 1 {
			afid = Fid(ndU32("op.afid"))
			afidBound = r.find(afid)
		}
		_, err := s.Attach(vBG, fid, afid, "u", "a")
		switch {
		case afid != NOFID:
			// no auth files exist in this rig: any afid other than NOFID is invalid
			vAssert(err != nil, "C08: attach with an invalid afid fails")
			_ = afidBound
		case fid == NOFID:
			vAssert(err != nil, "C08: attach onto NOFID fails")
		case i >= 0:
			vAssert(err == ErrDupfid, "C08: attach onto a bound fid fails with duplicate fid")
		default:
			if err == nil {
				e := r.fs.ents[len(r.fs.ents)-1]
				r.recs = append(r.recs, vFidRec{fid: fid, ent: e})
				r.bound = append(r.bound, e)
				vReach("c08.attach.ok")
			}
		}
	case 1, 2: // Clunk, Remove
		var err error
		if op == 1 {
			err = s.Clunk(vBG, fid)
		} else {
			err = s.Remove(vBG, fid)
		}
		if i < 0 {
			vAssert(err == ErrUnknownfid, "C08: clunk/remove of an unbound fid fails with unknown fid")
		} else {
			e := r.recs[i].ent
			r.del(i)
			vAssert(e.released == 1, "C13: clunk/remove releases the entry exactly once")
			vAssert(e.removed == (op == 2), "C08: remove calls Remove, clunk calls Clunk")
			vReach("c08.unbind")
		}
	case 3: // Walk
		var newfid Fid
		var nn int
		if r.lite {
			newfid = Fid(ndChoice("op.newfid", 2))
			nn = ndChoice("op.nnames", 2)
		} else {
			newfid = Fid(ndU32("op.newfid"))
			nn = ndChoice("op.nnames", 3)
		}
		j := r.find(newfid)
		names := make([]string, nn)
		for k := range names {
			if r.lite {
				names[k] = "a"
			} else {
				names[k] = ndString("op.name", 1+ndChoice("op.namelen", 2))
			}
		}
		valid := ValidPath(names) >= 0
		nents := len(r.fs.ents)
		qids, err := s.Walk(vBG, fid, newfid, names...)
		switch {
		case !valid:
			vAssert(err != nil, "C08: walk with an unsafe name list fails")
		case i < 0:
			vAssert(err != nil, "C08: walk from an unbound fid fails")
		case newfid != fid && (j >= 0 || newfid == NOFID):
			vAssert(err != nil, "C08: walk onto a bound fid (or NOFID) fails")
			if j >= 0 && newfid != NOFID {
				vAssert(err == ErrDupfid, "C08: walk onto a bound fid fails with duplicate fid")
			}
		case nn == 0 && newfid == fid:
			vAssert(err == nil, "C08: walk of no names onto the same fid is a no-op")
		case nn > 0 && !r.recs[i].ent.dir:
			vAssert(err != nil, "C08: walk of names from a non-directory fails")
		default:
			complete := err == nil && len(qids) == nn && len(r.fs.ents) > nents
			if complete {
				e := r.fs.ents[len(r.fs.ents)-1]
				r.bound = append(r.bound, e)
				if newfid == fid {
					old := r.recs[i].ent
					vAssert(old.released == 1, "C13: an in-place walk releases the replaced entry exactly once")
					r.recs[i].ent = e
					// open state of a fid walked in place is not specified by the property
					r.recs[i].open = false
					if v, ok := s.refs.Load(fid); ok && v.(*SFid).File != nil {
						r.recs[i].open = true
						r.recs[i].mode = v.(*SFid).Mode
						r.recs[i].file = nil
					}
					vReach("c08.walk.inplace")
				} else {
					r.recs = append(r.recs, vFidRec{fid: newfid, ent: e})
					vReach("c08.walk.newfid")
				}
			} else {
				vAssert(len(qids) < nn || err != nil || nn == 0, "C08: a walk that binds nothing is partial or failed")
				if len(r.fs.ents) > nents {
					// an entry was produced by the file system but not bound: it must be released
					r.bound = append(r.bound, r.fs.ents[len(r.fs.ents)-1])
				}
				vReach("c08.walk.partial")
			}
		}
	case 4: // Open
		mode := Flag(ndU8("op.mode"))
		_, _, err := s.Open(vBG, fid, mode)
		switch {
		case i < 0:
			vAssert(err == ErrUnknownfid, "C08: open of an unbound fid fails with unknown fid")
		case r.recs[i].open:
			vAssert(err != nil, "C08: a fid can be opened at most once")
		default:
			if err == nil {
				r.recs[i].open = true
				r.recs[i].mode = mode
				r.recs[i].file = r.recs[i].ent.file
				if r.recs[i].ent.dir {
					r.recs[i].file = nil
				}
				vReach("c08.open.ok")
			}
		}
	case 5: // Create
		mode := Flag(ndU8("op.mode"))
		perm := ndU32("op.perm")
		name := "a"
		if !r.lite {
			name = ndString("op.cname", 1+ndChoice("op.cnamelen", 2))
		}
		special := vOr(name == ".", name == "..")
		nents := len(r.fs.ents)
		_, _, err := s.Create(vBG, fid, name, perm, mode)
		switch {
		case special:
			vAssert(err != nil, "C08: create of . or .. fails")
		case i < 0:
			vAssert(err != nil, "C08: create in an unbound fid fails")
		case !r.recs[i].ent.dir:
			vAssert(err != nil, "C08: create in a non-directory fails")
		default:
			if err == nil {
				e := r.fs.ents[len(r.fs.ents)-1]
				r.bound = append(r.bound, e)
				r.recs[i].ent = e
				r.recs[i].open = true
				r.recs[i].mode = mode
				r.recs[i].file = e.file
				if e.dir {
					r.recs[i].file = nil
				}
				vReach("c08.create.ok")
			} else if len(r.fs.ents) > nents {
				// the file system created an entry but the session reported failure:
				// the new entry must still be released, and the parent was consumed
				e := r.fs.ents[len(r.fs.ents)-1]
				r.bound = append(r.bound, e)
				r.del(i)
				vReach("c08.create.halfway")
			}
		}
	case 6, 7: // Read, Write
		off := ndI64("op.off")
		plen := 1
		if !r.lite {
			plen = ndChoice("op.plen", 3)
		}
		p := make([]byte, plen)
		var n int
		var err error
		var before int
		if i >= 0 && r.recs[i].file != nil {
			before = r.recs[i].file.reads + r.recs[i].file.writes
		}
		if op == 6 {
			n, err = s.Read(vBG, fid, p, off)
		} else {
			n, err = s.Write(vBG, fid, p, off)
		}
		switch {
		case i < 0:
			vAssert(err == ErrUnknownfid, "C08: read/write on an unbound fid fails with unknown fid")
		case !r.recs[i].open:
			vAssert(err != nil, "C08: read/write on an unopened fid fails")
		default:
			m := r.recs[i].mode & 3
			var allowed bool
			if op == 6 {
				allowed = vNot(m == OWRITE)
			} else {
				allowed = vOr(m == OWRITE, m == ORDWR)
			}
			if allowed {
				if f := r.recs[i].file; f != nil {
					vAssert(f.reads+f.writes == before+1, "C08: a permitted read/write reaches the file exactly once")
					vAssert(f.lastP == len(p) && f.lastO == off, "C08: with the caller's buffer and offset")
					vAssert(vImplies(err == nil, n == len(p)), "C08: and its result is passed through")
				}
				vReach("c08.rw.allowed")
			} else {
				vAssert(err != nil, "C08: read/write is refused when the open mode does not permit it")
				if f := r.recs[i].file; f != nil {
					vAssert(f.reads+f.writes == before, "C08: a refused read/write does not reach the file")
				}
				vReach("c08.rw.refused")
			}
		}
	case 8, 9: // Stat, WStat
		var err error
		if op == 8 {
			_, err = s.Stat(vBG, fid)
		} else {
			err = s.WStat(vBG, fid, Dir{})
		}
		if i < 0 {
			vAssert(err == ErrUnknownfid, "C08: stat/wstat on an unbound fid fails with unknown fid")
		}
	case 10: // Auth: this file system requires none
		_, err := s.Auth(vBG, fid, "u", "a")
		if fid != NOFID {
			vAssert(err != nil, "C08: auth is refused by a file system that requires none")
		}
	}
	vObserve("op", op)
}

// one inductive step: C08 (table), C13 (release accounting), C14 (no lock left)
func vC08Step(maxPre int, steps int) {
	r := vNewRig(ndChoice("npre", maxPre+1))
	r.vCheckTable("pre-state")
	for k := 0; k < steps; k++ {
		r.vStep()
		r.vCheckTable("after the operation")
		r.vCheckUnlocked()
	}
	r.vStopAndAccount()
	vReach("c08.step.done")
}

func VerifC08_StepQuick()    { vC08Step(2, 1) }
func VerifC08_StepThorough() { vC08Step(3, 1) }
func VerifC08_SeqQuick()     { vC08Step(0, 2) }
func VerifC08_SeqThorough()  { vC08Step(1, 2) }

// long sequences over the small alphabet: pre-state of 0..1 bound fids (fid 0,
// directory or file, unopened or open), then `steps` operations
func vC08Deep(steps int) {
	r := vNewRig(0)
	r.lite = true
	r.fs.noFail = true
	if ndChoice("npre", 2) == 1 {
		ent := r.fs.newEnt(ndChoice("pre.isdir", 2) == 1)
		rec := vFidRec{fid: 0, ent: ent}
		sf := &SFid{Ent: ent}
		if ndChoice("pre.open", 2) == 1 {
			rec.open = true
			rec.mode = Flag(ndU8("pre.mode"))
			sf.Mode = rec.mode
			if ent.dir {
				sf.File = NewReaddir(NewCodec(), func(context.Context) ([]Dir, error) { return nil, nil })
			} else {
				ent.file = &vStubFile{ent: ent}
				rec.file = ent.file
				sf.File = ent.file
			}
		}
		r.sess.refs.Store(Fid(0), sf)
		r.recs = append(r.recs, rec)
		r.bound = append(r.bound, ent)
	}
	r.vCheckTable("pre-state")
	for k := 0; k < steps; k++ {
		r.vStep()
		r.vCheckTable("after the operation")
		r.vCheckUnlocked()
	}
	r.vStopAndAccount()
	vReach("c08.deep.done")
}

func VerifC08_DeepQuick()    { vC08Deep(3) }
func VerifC08_DeepThorough() { vC08Deep(4) }
