package p9p

// C16 - path helpers accept exactly the safe names and never climb above root.
// Reference: classify each element, resolve stepwise on a component stack.

// ndCanonDir builds a directory in canonical internal form with `depth`
// elements of 1..2 symbolic bytes each (no separators, not "." or "..").
func ndCanonDir(maxDepth int) (string, []string) {
	depth := ndChoice("depth", maxDepth+1)
	var elems []string
	dir := ""
	for i := 0; i < depth; i++ {
		e := ndString("dirElem", 1+ndChoice("dirElemLen", 2))
		for j := 0; j < len(e); j++ {
			vAssume(vAnd(e[j] != '/', e[j] != '\\'))
		}
		vAssume(vAnd(e != ".", e != ".."))
		elems = append(elems, e)
		dir += "/" + e
	}
	if depth == 0 {
		dir = "/"
	}
	return dir, elems
}

func ndNames(maxN, maxLen int) []string {
	n := ndChoice("nnames", maxN+1)
	names := make([]string, n)
	for i := range names {
		names[i] = ndString("name", ndChoice("nameLen", maxLen+1))
	}
	return names
}

func vHasSep(s string) bool {
	r := false
	for i := 0; i < len(s); i++ {
		r = vOr(r, vOr(s[i] == '/', s[i] == '\\'))
	}
	return r
}

// vRefValid: -1 if rejected, else the number of leading "..".
func vRefValid(names []string) int {
	n := 0
	for i, s := range names {
		if len(s) == 0 {
			return -1
		}
		if vHasSep(s) {
			return -1
		}
		if s == "." {
			return -1
		}
		if s == ".." {
			if n != i {
				return -1
			}
			n++
		}
	}
	return n
}

// vRefResolve resolves names stepwise from the stack; ok=false when it would
// climb above the root.
func vRefResolve(stack []string, names []string) ([]string, bool) {
	st := append([]string(nil), stack...)
	for _, s := range names {
		if s == ".." {
			if len(st) == 0 {
				return nil, false
			}
			st = st[:len(st)-1]
		} else {
			st = append(st, s)
		}
	}
	return st, true
}

func vJoinAbs(st []string) string {
	if len(st) == 0 {
		return "/"
	}
	r := ""
	for _, s := range st {
		r += "/" + s
	}
	return r
}

func vC16Walk(maxDepth, maxN, maxLen int) {
	dir, elems := ndCanonDir(maxDepth)
	names := ndNames(maxN, maxLen)
	want := vRefValid(names)
	got := ValidPath(names)
	vAssert(got == want, "C16: ValidPath accepts exactly the safe lists and counts the leading ..")
	orig := append([]string(nil), names...)
	res, err := WalkName(dir, names...)
	vAssert(vStrsEq(names, orig), "C16: WalkName is a function of its arguments (the caller's list is left as it was)")
	names = orig
	st, ok := vRefResolve(elems, names)
	if want < 0 || !ok {
		vAssert(err != nil, "C16: WalkName rejects unsafe lists and climbs above root")
		vReach("c16.walk.rejected")
	} else {
		vAssert(err == nil, "C16: WalkName accepts safe lists that stay below root")
		vAssert(res == vJoinAbs(st), "C16: WalkName equals stepwise resolution (canonical absolute path)")
		vReach("c16.walk.ok")
	}
	vObserve("res", res)
	vObserve("err", err != nil)
}

func VerifC16_WalkQuick()    { vC16Walk(1, 2, 2) }
func VerifC16_WalkThorough() { vC16Walk(2, 3, 3) }

func vC16Create(maxDepth, maxLen int) {
	dir, elems := ndCanonDir(maxDepth)
	name := ndString("name", ndChoice("nameLen", maxLen+1))
	res, err := CreateName(dir, name)
	bad := len(name) == 0 || vHasSep(name) || name == "." || name == ".."
	if bad {
		vAssert(err != nil, "C16: CreateName rejects empty, '.', '..' and names with separators")
		vReach("c16.create.rejected")
	} else {
		vAssert(err == nil, "C16: CreateName accepts ordinary names")
		vAssert(res == vJoinAbs(append(append([]string(nil), elems...), name)), "C16: CreateName result is dir/name, canonical")
		vReach("c16.create.ok")
	}
	vObserve("res", res)
}

func VerifC16_CreateQuick()    { vC16Create(1, 3) }
func VerifC16_CreateThorough() { vC16Create(2, 4) }

// reference normalisation: drop "" and ".", ".." pops a non-".." element or is
// kept as a leading ".."; separators reject.
func vRefNormalize(names []string) ([]string, int) {
	var out []string
	lo := 0
	for _, s := range names {
		if vHasSep(s) {
			return nil, -1
		}
		if len(s) == 0 || s == "." {
			continue
		}
		if s == ".." {
			if len(out) > lo {
				out = out[:len(out)-1]
				continue
			}
			lo++
		}
		out = append(out, s)
	}
	return out, lo
}

func vStrsEq(a, b []string) bool {
	if len(a) != len(b) {
		return false
	}
	r := true
	for i := range a {
		r = vAnd(r, vEqStr(a[i], b[i]))
	}
	return r
}

func vC16Normalize(maxN, maxLen int) {
	names := ndNames(maxN, maxLen)
	orig := append([]string(nil), names...)
	got, bsp := NormalizePath(names)
	vAssert(vStrsEq(names, orig), "C16: NormalizePath is a function of its argument (the caller's list is left as it was)")
	names = orig
	want, wbsp := vRefNormalize(names)
	vAssert(bsp == wbsp, "C16: NormalizePath returns -1 exactly on separators, else the leading .. count")
	if wbsp >= 0 {
		vAssert(vStrsEq(got, want), "C16: NormalizePath agrees with stepwise resolution")
		// idempotent
		again, bsp2 := NormalizePath(got)
		vAssert(bsp2 == bsp, "C16: NormalizePath idempotent (count)")
		vAssert(vStrsEq(again, got), "C16: NormalizePath idempotent")
		// output is a valid walk list with bsp leading ..
		vAssert(ValidPath(got) == bsp, "C16: normalised list is valid")
		vReach("c16.norm.ok")
	} else {
		vReach("c16.norm.rejected")
	}
}

func VerifC16_NormalizeQuick()    { vC16Normalize(3, 2) }
func VerifC16_NormalizeThorough() { vC16Normalize(4, 3) }

func vC16ToWalk(maxLen int) {
	p := ndString("p", ndChoice("plen", maxLen+1))
	isAbs, steps, err := ToWalk(nil, p)
	// reference: split on '/', after trimming leading/trailing '/'
	abs := len(p) > 0 && p[0] == '/'
	vAssert(isAbs == abs, "C16: ToWalk absolute-path rule")
	lo, hi := 0, len(p)
	for lo < hi && p[lo] == '/' {
		lo++
	}
	for hi > lo && p[hi-1] == '/' {
		hi--
	}
	var parts []string
	cur := ""
	for i := lo; i < hi; i++ {
		if p[i] == '/' {
			parts = append(parts, cur)
			cur = ""
		} else {
			cur += p[i : i+1]
		}
	}
	parts = append(parts, cur)
	want, wbsp := vRefNormalize(parts)
	if wbsp < 0 || (abs && wbsp != 0) {
		vAssert(err != nil, "C16: ToWalk rejects backslashes and absolute paths climbing above root")
		vReach("c16.towalk.rejected")
	} else {
		vAssert(err == nil, "C16: ToWalk accepts")
		vAssert(vStrsEq(steps, want), "C16: ToWalk = Normalize . Split")
		vReach("c16.towalk.ok")
	}
}

func VerifC16_ToWalkQuick()    { vC16ToWalk(4) }
func VerifC16_ToWalkThorough() { vC16ToWalk(6) }

// ---- wide shapes: long names, deep directories, long lists ---------------------
// Names are drawn from an alphabet of forms (every special form of the
// property's quantifier, including names made of dots only and names of eight
// bytes); lists are built from a core alphabet with at most one element of the
// full alphabet at an arbitrary position; directories are up to three deep.
var vC16Core = []string{"..", "a", "abcdefgh"}
var vC16Full = []string{"", ".", "..", "...", "....", "a", "ab", "a.", ".a", "..a", "a..", ". .", "a/b", "a\\b", "/", "\\", "abcdefgh", ".hidden", "x\x00y"}
var vC16Dirs = []struct {
	dir   string
	elems []string
}{
	{"/", nil},
	{"/d1/dd2", []string{"d1", "dd2"}},
	{"/d1/dd2/d.3", []string{"d1", "dd2", "d.3"}},
	{"/.../..x/long-name", []string{"...", "..x", "long-name"}},
}

func ndWideNames(maxN int) []string {
	n := ndChoice("nnames", maxN+1)
	names := make([]string, n)
	for i := range names {
		names[i] = vC16Core[ndChoice("core", len(vC16Core))]
	}
	if n > 0 && ndChoice("odd", 2) == 1 {
		names[ndChoice("oddpos", n)] = vC16Full[ndChoice("oddform", len(vC16Full))]
	}
	return names
}

func vC16WalkWide(maxN int) {
	d := vC16Dirs[ndChoice("dir", len(vC16Dirs))]
	names := ndWideNames(maxN)
	want := vRefValid(names)
	vAssert(ValidPath(names) == want, "C16: ValidPath accepts exactly the safe lists and counts the leading ..")
	res, err := WalkName(d.dir, names...)
	st, ok := vRefResolve(d.elems, names)
	if want < 0 || !ok {
		vAssert(err != nil, "C16: WalkName rejects unsafe lists and climbs above root")
	} else {
		vAssert(err == nil, "C16: WalkName accepts safe lists that stay below root")
		vAssert(res == vJoinAbs(st), "C16: WalkName equals stepwise resolution (canonical absolute path)")
	}
	vReach("c16.walk.wide")
}

func vC16NormalizeWide(maxN int) {
	names := ndWideNames(maxN)
	orig := append([]string(nil), names...)
	got, bsp := NormalizePath(names)
	vAssert(vStrsEq(names, orig), "C16: NormalizePath is a function of its argument (the caller's list is left as it was)")
	names = orig
	want, wbsp := vRefNormalize(names)
	vAssert(bsp == wbsp, "C16: NormalizePath returns -1 exactly on separators, else the leading .. count")
	if wbsp >= 0 {
		vAssert(vStrsEq(got, want), "C16: NormalizePath agrees with stepwise resolution")
		again, bsp2 := NormalizePath(got)
		vAssert(bsp2 == bsp && vStrsEq(again, got), "C16: NormalizePath idempotent")
		vAssert(ValidPath(got) == bsp, "C16: normalised list is valid")
	}
	// ToWalk of the joined list agrees with Normalize (relative and absolute)
	joinable := true
	for _, s := range names {
		if vHasSep(s) || len(s) == 0 {
			joinable = false
		}
	}
	if joinable && len(names) > 0 {
		p := ""
		for i, s := range names {
			if i > 0 {
				p += "/"
			}
			p += s
		}
		if ndChoice("abs", 2) == 1 {
			p = "/" + p
		}
		isAbs, steps, err := ToWalk(nil, p)
		vAssert(isAbs == (p[0] == '/'), "C16: ToWalk absolute-path rule")
		if isAbs && wbsp != 0 {
			vAssert(err != nil, "C16: ToWalk rejects backslashes and absolute paths climbing above root")
		} else {
			vAssert(err == nil, "C16: ToWalk accepts")
			vAssert(vStrsEq(steps, want), "C16: ToWalk = Normalize . Split")
		}
	}
	vReach("c16.norm.wide")
}

func vC16CreateWide() {
	d := vC16Dirs[ndChoice("dir", len(vC16Dirs))]
	name := vC16Full[ndChoice("form", len(vC16Full))]
	res, err := CreateName(d.dir, name)
	bad := len(name) == 0 || vHasSep(name) || name == "." || name == ".."
	if bad {
		vAssert(err != nil, "C16: CreateName rejects empty, '.', '..' and names with separators")
	} else {
		vAssert(err == nil, "C16: CreateName accepts ordinary names")
		vAssert(res == vJoinAbs(append(append([]string(nil), d.elems...), name)), "C16: CreateName result is dir/name, canonical")
	}
	vReach("c16.create.wide")
}

func VerifC16_WideQuick() {
	switch ndChoice("fn", 3) {
	case 0:
		vC16WalkWide(4)
	case 1:
		vC16NormalizeWide(4)
	case 2:
		vC16CreateWide()
	}
}
func VerifC16_WideThorough() {
	switch ndChoice("fn", 3) {
	case 0:
		vC16WalkWide(6)
	case 1:
		vC16NormalizeWide(6)
	case 2:
		vC16CreateWide()
	}
}
