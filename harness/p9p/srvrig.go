package p9p

// Rig for C06 / C07 / C11: the real conn.serve loop over a mock Channel whose
// other end is the harness, with a scripted Handler that records invocations
// and blocks until released (or until its context is cancelled).

import "context"

type vHandlerRes struct {
	msg Message
	err error
}

type vSrvHandler struct {
	n        int
	invoked  []int               // invocation count per request index
	seenOff  []uint64            // payload seen by the handler
	ctxs     []context.Context   // handler contexts
	started  chan int            // request index, sent when the handler starts
	release  []chan vHandlerRes  // per request: the result to return
	honour   []bool              // return when the context is cancelled
	returned []bool
	stops    int
	stopErr  error
}

func newVSrvHandler(n int) *vSrvHandler {
	h := &vSrvHandler{n: n, started: make(chan int, n)}
	h.invoked = make([]int, n)
	h.seenOff = make([]uint64, n)
	h.ctxs = make([]context.Context, n)
	h.honour = make([]bool, n)
	h.returned = make([]bool, n)
	for i := 0; i < n; i++ {
		h.release = append(h.release, make(chan vHandlerRes, 1))
		h.honour[i] = true
	}
	return h
}

// requests are Twrite{Fid: index, Offset: symbolic marker}
func (h *vSrvHandler) Handle(ctx context.Context, msg Message) (Message, error) {
	var i int
	switch m := msg.(type) {
	case MessageTwrite:
		i = int(m.Fid)
		h.seenOff[i] = m.Offset
	case MessageTclunk:
		i = int(m.Fid)
	case MessageTremove:
		i = int(m.Fid)
	case MessageTstat:
		i = int(m.Fid)
	case MessageTopen:
		i = int(m.Fid)
	case MessageTread:
		i = int(m.Fid)
		h.seenOff[i] = m.Offset
	default:
		return nil, errVMock
	}
	h.invoked[i]++
	h.ctxs[i] = ctx
	h.started <- i
	defer func() { h.returned[i] = true }()
	if h.honour[i] {
		select {
		case r := <-h.release[i]:
			return r.msg, r.err
		case <-ctx.Done():
			return nil, ctx.Err()
		}
	}
	r := <-h.release[i]
	return r.msg, r.err
}

func (h *vSrvHandler) Stop(err error) error {
	h.stops++
	h.stopErr = err
	return err
}

type vSrv struct {
	ch     *vPeerChannel
	h      *vSrvHandler
	c      *conn
	cancel context.CancelFunc
	served chan error
}

func newVSrv(n int) *vSrv {
	s := &vSrv{ch: newVPeerChannel(), h: newVSrvHandler(n), served: make(chan error, 1)}
	ctx, cancel := context.WithCancel(vBG)
	s.cancel = cancel
	s.c = &conn{ctx: ctx, ch: s.ch, handler: s.h, closed: make(chan struct{})}
	go func() { s.served <- s.c.serve() }()
	return s
}

func vReq(i int, tag Tag, marker uint64) *Fcall {
	return &Fcall{Type: Twrite, Tag: tag, Message: MessageTwrite{Fid: Fid(i), Offset: marker}}
}

// vReqKind builds request i of one of several kinds (index carried in Fid)
func vReqKind(kind int, i int, tag Tag, marker uint64) *Fcall {
	var m Message
	switch kind {
	case 1:
		m = MessageTclunk{Fid: Fid(i)}
	case 2:
		m = MessageTremove{Fid: Fid(i)}
	case 3:
		m = MessageTstat{Fid: Fid(i)}
	case 4:
		m = MessageTopen{Fid: Fid(i)}
	case 5:
		m = MessageTread{Fid: Fid(i), Offset: marker, Count: 1}
	default:
		m = MessageTwrite{Fid: Fid(i), Offset: marker}
	}
	return newFcall(tag, m)
}

const vNReqKinds = 6

// vResKind draws a handler result carrying `payload`: a message, a 9P error
// or a plain error (texts are symbolic through the payload byte).
func vResFor(kind int, payload uint32, text string) vHandlerRes {
	switch kind {
	case 0:
		return vHandlerRes{msg: MessageRwrite{Count: payload}}
	case 1:
		return vHandlerRes{err: MessageRerror{Ename: text}}
	}
	return vHandlerRes{err: vTextErr{text}}
}

// vCheckResp checks that resp is the reply to request (tag, result)
func vCheckResp(resp *Fcall, tag Tag, kind int, payload uint32, text string, what string) {
	vAssert(resp.Tag == tag, "C06: the reply carries the request's tag ("+what+")")
	switch kind {
	case 0:
		rw, ok := resp.Message.(MessageRwrite)
		vAssert(ok && resp.Type == Rwrite, "C06: the reply is the message the handler returned ("+what+")")
		if ok {
			vAssert(rw.Count == payload, "C06: the reply carries exactly the handler's result ("+what+")")
		}
	default:
		re, ok := resp.Message.(MessageRerror)
		vAssert(ok && resp.Type == Rerror, "C06: a handler error is answered with Rerror ("+what+")")
		if ok {
			vAssert(vEqStr(re.Ename, text), "C06: the error reply carries the error's text ("+what+")")
		}
	}
}

// vNoMoreReplies: after the system is quiescent no further frame is pending.
func (s *vSrv) vNoMoreReplies(label string) {
	vDrain()
	select {
	case extra := <-s.ch.toPeer:
		_ = extra
		vFail(label)
	default:
	}
}
