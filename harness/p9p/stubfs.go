package p9p

// Accounting stub file system (DESIGN C08/C13/C14): every Dirent handed out
// has an id and release/use accounting; every call may fail
// nondeterministically; an overlap monitor detects concurrent calls on one
// entry.

import "context"

type vStubFS struct {
	ents     []*vStubEnt
	viol     string // first stub-contract violation observed by the stub itself
	yield    bool   // vYield inside every call (concurrent harnesses)
	fullWalk bool   // walks by name always find every element
	noFail   bool   // calls never fail
	attaches int
	// scripted failures for the concurrent pair harness, keyed by entity id
	failRelease map[int]bool
	failClone   map[int]bool
}

type vStubEnt struct {
	fs       *vStubFS
	id       int
	dir      bool
	released int
	removed  bool
	consumed bool
	dummy    bool
	calls    int
	inCall   int
	file     *vStubFile
}

type vStubFile struct {
	ent    *vStubEnt
	reads  int
	writes int
	lastP  int
	lastO  int64
	inCall int
}

func (fs *vStubFS) note(s string) {
	if fs.viol == "" {
		fs.viol = s
	}
}

func (fs *vStubFS) newEnt(dir bool) *vStubEnt {
	e := &vStubEnt{fs: fs, id: len(fs.ents) + 1, dir: dir}
	fs.ents = append(fs.ents, e)
	return e
}

func (fs *vStubFS) fails(what string) bool {
	if fs.noFail {
		return false
	}
	return ndChoice("fail."+what, 2) == 1
}

func (fs *vStubFS) RequireAuth(ctx context.Context) bool { return false }
func (fs *vStubFS) Auth(ctx context.Context, uname, aname string) (AuthFile, error) {
	return nil, errVMock
}
func (fs *vStubFS) Attach(ctx context.Context, uname, aname string, af AuthFile) (Dirent, error) {
	fs.attaches++
	if fs.yield {
		vYield()
	}
	if fs.fails("attach") {
		return nil, errVMock
	}
	return fs.newEnt(true), nil
}

// enter/leave implement use-after-release detection and the overlap monitor
func (e *vStubEnt) enter(op string) {
	if e.dummy {
		e.fs.note("dummy entry of a partial walk used: " + op)
	}
	if e.released > 0 {
		e.fs.note("entry used after release: " + op)
	}
	e.calls++
	e.inCall++
	if e.inCall > 1 {
		e.fs.note("overlapping calls on one entry: " + op)
	}
	if e.fs.yield {
		vYield()
	}
}

func (e *vStubEnt) leave() { e.inCall-- }

func (e *vStubEnt) Qid() Qid {
	q := Qid{Path: uint64(e.id)}
	if e.dir {
		q.Type = QTDIR
	}
	return q
}

func (e *vStubEnt) OpenDir(ctx context.Context) (ReadNext, error) {
	e.enter("opendir")
	defer e.leave()
	if e.fs.fails("opendir") {
		return nil, errVMock
	}
	return func(context.Context) ([]Dir, error) { return nil, nil }, nil
}

func (e *vStubEnt) Walk(ctx context.Context, names ...string) ([]Qid, Dirent, error) {
	e.enter("walk")
	defer e.leave()
	dummy := &vStubEnt{fs: e.fs, dummy: true}
	if len(names) == 0 {
		if e.fs.failClone[e.id] || e.fs.fails("clone") {
			return nil, dummy, errVMock
		}
		return nil, e.fs.newEnt(e.dir), nil
	}
	// outcome: error, or k of len(names) elements found
	if e.fs.fails("walk") {
		return nil, dummy, errVMock
	}
	k := len(names)
	if !e.fs.fullWalk {
		k = ndChoice("walk.found", len(names)+1)
	}
	qids := make([]Qid, k)
	for i := range qids {
		qids[i] = Qid{Path: uint64(100 + i)}
	}
	if k < len(names) {
		return qids, dummy, nil
	}
	ne := e.fs.newEnt(ndChoice("walk.isdir", 2) == 1)
	qids[k-1] = ne.Qid()
	return qids, ne, nil
}

func (e *vStubEnt) Create(ctx context.Context, name string, perm uint32, mode Flag) (Dirent, File, error) {
	e.enter("create")
	defer e.leave()
	if e.fs.fails("create") {
		return nil, nil, errVMock
	}
	ne := e.fs.newEnt(perm&DMDIR != 0)
	ne.file = &vStubFile{ent: ne}
	// a successful create consumes the parent handle (property C13)
	e.consumed = true
	e.released++
	return ne, ne.file, nil
}

func (e *vStubEnt) Open(ctx context.Context, mode Flag) (File, error) {
	e.enter("open")
	defer e.leave()
	if e.fs.fails("open") {
		return nil, errVMock
	}
	e.file = &vStubFile{ent: e}
	return e.file, nil
}

func (e *vStubEnt) Remove(ctx context.Context) error {
	e.enter("remove")
	defer e.leave()
	e.released++
	e.removed = true
	if e.fs.failRelease[e.id] || e.fs.fails("remove") {
		return errVMock
	}
	return nil
}

func (e *vStubEnt) Clunk(ctx context.Context) error {
	e.enter("clunk")
	defer e.leave()
	e.released++
	if e.fs.failRelease[e.id] || e.fs.fails("clunk") {
		return errVMock
	}
	return nil
}

func (e *vStubEnt) Stat(ctx context.Context) (Dir, error) {
	e.enter("stat")
	defer e.leave()
	if e.fs.fails("stat") {
		return Dir{}, errVMock
	}
	return Dir{Qid: e.Qid(), Length: uint64(e.id)}, nil
}

func (e *vStubEnt) WStat(ctx context.Context, stat Dir) error {
	e.enter("wstat")
	defer e.leave()
	if e.fs.fails("wstat") {
		return errVMock
	}
	return nil
}

func (f *vStubFile) use(op string) {
	if f.ent.released > 0 {
		f.ent.fs.note("file of a released entry used: " + op)
	}
	f.inCall++
	if f.inCall > 1 || f.ent.inCall > 0 {
		f.ent.fs.note("overlapping calls on one open file: " + op)
	}
	if f.ent.fs.yield {
		vYield()
	}
}

func (f *vStubFile) Read(ctx context.Context, p []byte, offset int64) (int, error) {
	f.use("read")
	defer func() { f.inCall-- }()
	f.reads++
	f.lastP, f.lastO = len(p), offset
	if f.ent.fs.fails("read") {
		return 0, errVMock
	}
	return len(p), nil
}

func (f *vStubFile) Write(ctx context.Context, p []byte, offset int64) (int, error) {
	f.use("write")
	defer func() { f.inCall-- }()
	f.writes++
	f.lastP, f.lastO = len(p), offset
	if f.ent.fs.fails("write") {
		return 0, errVMock
	}
	return len(p), nil
}

func (f *vStubFile) IOUnit() int { return 0 }
