package p9p

import "context"

// C05 - client hands every reply to exactly the call that issued the request.

// (a) one step of tag allocation from a symbolic pre-state: the outstanding map
// holds n entries keyed by arbitrary tags other than NOTAG (the documented
// precondition), the hint (last tag handed out) is arbitrary.  Covers every
// position of the 16-bit counter, hence wrap-around with long-outstanding tags.
func vC05Alloc(maxN int) {
	n := ndChoice("n", maxN+1)
	m := map[Tag]*fcallRequest{}
	var keys []Tag
	for i := 0; i < n; i++ {
		k := Tag(ndU16("key"))
		vAssume(k != NOTAG)
		for _, o := range keys {
			vAssume(k != o)
		}
		keys = append(keys, k)
		// an outstanding request whose caller is still waiting, or one the
		// caller has abandoned (its context ended): both still await a reply
		rctx := vBG
		if ndChoice("abandoned", 2) == 1 {
			c, cancel := context.WithCancel(vBG)
			cancel()
			rctx = c
		}
		m[k] = newFcallRequest(rctx, MessageTclunk{})
	}
	hint := Tag(ndU16("hint"))
	tag, err := allocateTag(newFcallRequest(vBG, MessageTclunk{}), m, hint)
	vAssert(err == nil, "C05: a tag is available while fewer than 65535 are outstanding")
	vAssert(tag != NOTAG, "C05: the reserved no-tag value is never allocated")
	for _, k := range keys {
		vAssert(tag != k, "C05: an allocated tag differs from every outstanding tag")
	}
	vObserve("tag", uint16(tag))
	vReach("c05.alloc")
}

func VerifC05_AllocQuick()    { vC05Alloc(3) }
func VerifC05_AllocThorough() { vC05Alloc(5) }

// (b) multiplexing: K callers issue requests concurrently on one transport; the
// peer (this harness) answers in every order.  Each caller must get the reply
// derived from its own request, exactly once; tags on the wire are pairwise
// distinct and never NOTAG.
type vCallRes struct {
	done  bool
	count uint32
	err   error
}

func vC05Mux(k int, withError bool) {
	ch := newVPeerChannel()
	ctx, cancel := context.WithCancel(vBG)
	defer cancel()
	t := newTransport(ctx, ch)
	markers := make([]uint32, k)
	res := make([]vCallRes, k)
	doneCh := make(chan int, k)
	for i := 0; i < k; i++ {
		markers[i] = ndU32("marker")
		for j := 0; j < i; j++ {
			vAssume(markers[i] != markers[j])
		}
		go func(i int) {
			m, err := t.send(ctx, MessageTwrite{Fid: Fid(markers[i])})
			r := vCallRes{done: true, err: err}
			if rw, ok := m.(MessageRwrite); ok {
				r.count = rw.Count
			}
			res[i] = r
			doneCh <- i
		}(i)
	}
	// the peer collects the k requests
	tags := make([]Tag, k)
	owner := make([]int, k) // request index -> caller index
	for n := 0; n < k; n++ {
		req := <-ch.toPeer
		vAssert(req.Tag != NOTAG, "C05: a request never carries the reserved no-tag value")
		for j := 0; j < n; j++ {
			vAssert(req.Tag != tags[j], "C05: tags of requests awaiting a reply are pairwise distinct")
		}
		tags[n] = req.Tag
		tw, ok := req.Message.(MessageTwrite)
		vAssert(ok, "C05: the request on the wire is the caller's message")
		owner[n] = -1
		for i := 0; i < k; i++ {
			if uint32(tw.Fid) == markers[i] {
				owner[n] = i
			}
		}
		vAssert(owner[n] >= 0, "C05: the request carries its caller's payload")
	}
	// answer in every order
	answered := make([]bool, k)
	etext := ""
	errFor := -1
	if withError {
		errFor = ndChoice("errfor", k+1) - 1
		etext = ndString("etext", 2)
	}
	for n := 0; n < k; n++ {
		var pick []int
		for j := 0; j < k; j++ {
			if !answered[j] {
				pick = append(pick, j)
			}
		}
		j := pick[ndChoice("answer", len(pick))]
		answered[j] = true
		if j == errFor {
			ch.fromPeer <- &Fcall{Type: Rerror, Tag: tags[j], Message: MessageRerror{Ename: etext}}
		} else {
			ch.fromPeer <- &Fcall{Type: Rwrite, Tag: tags[j], Message: MessageRwrite{Count: markers[owner[j]] + 7}}
		}
	}
	for n := 0; n < k; n++ {
		<-doneCh
	}
	for i := 0; i < k; i++ {
		vAssert(res[i].done, "C05: every call returns")
		isErr := false
		for j := 0; j < k; j++ {
			if owner[j] == i && j == errFor {
				isErr = true
			}
		}
		if isErr {
			re, ok := res[i].err.(MessageRerror)
			vAssert(ok && vEqStr(re.Ename, etext), "C05: an error reply becomes that call's error")
		} else {
			vAssert(res[i].err == nil, "C05: a call whose request was answered succeeds")
			vAssert(res[i].count == markers[i]+7, "C05: each call returns the reply to its own request")
		}
	}
	vReach("c05.mux")
}

func VerifC05_MuxQuick()    { vC05Mux(2, true) }
func VerifC05_MuxThorough() { vC05Mux(3, true) }

// larger configurations, explored delay-bounded (see check spec)
func VerifC05_Mux4() { vC05Mux(4, true) }
func VerifC05_Mux5() { vC05Mux(5, true) }

// (c) a failed write in the middle: X's write is blocked and then fails while Y
// is queued behind it; Y goes out and stays unanswered; two further calls are
// issued.  Tags of the requests awaiting a reply stay pairwise distinct and
// every call gets the reply to its own request.
func VerifC05_FailedWrite() {
	ch := newVPeerChannel()
	ch.werrs = make(chan error)
	ctx, cancel := context.WithCancel(vBG)
	defer cancel()
	t := newTransport(ctx, ch)
	type res struct {
		msg Message
		err error
	}
	results := make([]chan res, 4)
	call := func(i int) {
		results[i] = make(chan res, 1)
		go func() {
			m, err := t.send(vBG, MessageTwrite{Fid: Fid(i)})
			results[i] <- res{m, err}
		}()
	}
	call(0) // X: tagged, its write blocks (the peer is not reading yet)
	vDrain()
	call(1) // Y: tagged, queued behind X
	vDrain()
	ch.werrs <- errVMock // X's write fails
	r := <-results[0]
	vAssert(r.err != nil, "C05: a call whose request cannot be written returns that error")
	tags := map[int]Tag{}
	recv := func() {
		req := <-ch.toPeer
		i := int(req.Message.(MessageTwrite).Fid)
		vAssert(req.Tag != NOTAG, "C05: a request never carries the reserved no-tag value")
		for j, tg := range tags {
			vAssert(tg != req.Tag || j == i, "C05: tags of requests still awaiting a reply are pairwise distinct")
		}
		tags[i] = req.Tag
	}
	recv() // Y, left unanswered for now
	call(2)
	recv()
	call(3)
	recv()
	// answer in an explored order
	order := [][]int{{3, 2, 1}, {1, 2, 3}, {2, 3, 1}}[ndChoice("order", 3)]
	for _, i := range order {
		ch.fromPeer <- &Fcall{Type: Rwrite, Tag: tags[i], Message: MessageRwrite{Count: uint32(100 + i)}}
		r := <-results[i] // a call that never returns is reported as a deadlock
		rw, ok := r.msg.(MessageRwrite)
		vAssert(r.err == nil && ok && rw.Count == uint32(100+i), "C05: each call returns with the reply that carries the tag of its own request")
	}
	vReach("c05.failedwrite")
}
