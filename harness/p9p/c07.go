package p9p

import "context"

// C07 - flush cancels the request, silences its reply and frees the tag safely.

// Request A (tag t) is flushed by Tflush(oldtag o) with o symbolic; A's handler
// either honours cancellation or ignores it and completes at an explored
// moment; optionally request B reuses tag t after the environment has observed
// the Rflush.
func vC07Flush(reuse bool) {
	s := newVSrv(2)
	t := Tag(ndU16("tagA"))
	f := Tag(ndU16("tagF"))
	vAssume(f != t)
	o := Tag(ndU16("oldtag"))
	markA, markB := ndU64("markA"), ndU64("markB")
	payA, payB := ndU32("payA"), ndU32("payB")
	vAssume(payA != payB)
	s.h.honour[0] = ndChoice("honourA", 2) == 1
	// when does A's handler complete (if it ignores cancellation)?
	//   0: before the flush is sent  1: after Rflush was seen, before reuse  2: after B was sent  3: never released
	when := 3
	if !s.h.honour[0] {
		when = ndChoice("whenA", 4)
	}
	s.ch.fromPeer <- vReqKind(ndChoice("kindA", vNReqKinds), 0, t, markA)
	<-s.h.started
	if when == 0 {
		s.h.release[0] <- vResFor(0, payA, "")
	}
	s.ch.fromPeer <- &Fcall{Type: Tflush, Tag: f, Message: MessageTflush{Oldtag: o}}
	// collect replies until the flush is answered; A's own reply may come first
	// only if A completed before the flush took effect
	aReplies := 0
	var fl *Fcall
	for fl == nil {
		r := <-s.ch.toPeer
		if r.Tag == f {
			fl = r
		} else {
			vAssert(r.Tag == t, "C07: only the outstanding request and the flush are answered")
			vAssert(when == 0, "C07: the flushed request is only answered if it completed before the flush")
			vCheckResp(r, t, 0, payA, "", "A before flush")
			aReplies++
		}
	}
	if o == t && aReplies == 0 {
		vAssert(fl.Type == Rflush, "C07: flush of an outstanding request is acknowledged with Rflush")
		vAssert(s.h.ctxs[0].Err() != nil, "C07: the flushed request's handler context is cancelled no later than the acknowledgement")
		vReach("c07.flushed")
	} else if o != t {
		vAssert(fl.Type == Rflush || fl.Type == Rerror, "C07: a flush naming a tag that is not outstanding still receives a reply")
		vReach("c07.flush.other")
	} else {
		vReach("c07.flush.late")
	}
	flushedA := o == t && aReplies == 0
	if when == 1 {
		s.h.release[0] <- vResFor(0, payA, "")
	}
	if reuse && flushedA {
		// B reuses the freed tag
		s.ch.fromPeer <- vReq(1, t, markB)
		<-s.h.started
		if when == 2 {
			s.h.release[0] <- vResFor(0, payA, "")
			vDrain()
		}
		s.h.release[1] <- vResFor(0, payB, "")
		r := <-s.ch.toPeer
		vAssert(r.Tag == t, "C07: the reply to the reusing request carries its tag")
		rw, ok := r.Message.(MessageRwrite)
		vAssert(ok, "C07: the reusing request receives a reply of its own kind")
		if ok {
			vAssert(rw.Count != payA, "C07: a request reusing the freed tag never receives the flushed request's reply")
			vAssert(rw.Count == payB, "C07: a request reusing the freed tag receives its own reply")
		}
		vReach("c07.reuse")
	} else if when == 2 {
		s.h.release[0] <- vResFor(0, payA, "")
	}
	if flushedA {
		// after the acknowledgement no reply to the flushed request is ever sent
		vDrain()
		select {
		case extra := <-s.ch.toPeer:
			_ = extra
			vFail("C07: no reply to the flushed request is sent after the flush was acknowledged")
		default:
		}
	}
	vReach("c07.done")
}

func VerifC07_Flush()      { vC07Flush(false) }
func VerifC07_FlushReuse() { vC07Flush(true) }

// Two flushes of one tag around a reuse: A (tag t) is flushed and acknowledged,
// B reuses t, A's handler (which ignored the cancellation) may complete late at
// an explored moment, then t is flushed again.  The second flush must cancel B
// and be acknowledged, and B must never be answered afterwards; without the
// reuse the second flush names a tag that is not outstanding and still gets
// exactly one reply.
func VerifC07_FlushTwice() {
	s := newVSrv(2)
	t := Tag(ndU16("tagA"))
	f1, f2 := Tag(ndU16("tagF1")), Tag(ndU16("tagF2"))
	vAssume(vAnd(f1 != t, f2 != t))
	payA, payB := ndU32("payA"), ndU32("payB")
	vAssume(payA != payB)
	s.h.honour[0] = ndChoice("honourA", 2) == 1
	lateA := !s.h.honour[0] && ndChoice("lateA", 2) == 1
	reuse := ndChoice("reuse", 2) == 1
	s.ch.fromPeer <- vReqKind(ndChoice("kindA", vNReqKinds), 0, t, ndU64("markA"))
	<-s.h.started
	s.ch.fromPeer <- &Fcall{Type: Tflush, Tag: f1, Message: MessageTflush{Oldtag: t}}
	r := <-s.ch.toPeer
	vAssert(r.Tag == f1 && r.Type == Rflush, "C07: flush of an outstanding request is acknowledged with Rflush")
	if reuse {
		s.ch.fromPeer <- vReq(1, t, ndU64("markB"))
		<-s.h.started
	}
	if lateA {
		s.h.release[0] <- vResFor(0, payA, "")
		vDrain()
	}
	s.ch.fromPeer <- &Fcall{Type: Tflush, Tag: f2, Message: MessageTflush{Oldtag: t}}
	r = <-s.ch.toPeer
	vAssert(r.Tag == f2, "C07: after a flush was acknowledged, the next frame for a second flush is its own reply (nothing for the flushed request)")
	if reuse {
		vAssert(r.Type == Rflush, "C07: a second flush of the reused tag is acknowledged with Rflush")
		vAssert(s.h.ctxs[1].Err() != nil, "C07: the flushed request's handler context is cancelled no later than the acknowledgement")
		vReach("c07.twice.reuse")
	} else {
		vAssert(r.Type == Rflush || r.Type == Rerror, "C07: a flush naming a tag that is not outstanding still receives a reply")
		vReach("c07.twice.plain")
	}
	if !lateA && !s.h.honour[0] {
		s.h.release[0] <- vResFor(0, payA, "")
	}
	s.vNoMoreReplies("C07: no reply to a flushed request is sent after the flush was acknowledged")
}

// A flushed request whose handler ignores the cancellation, followed by TWO
// further requests that are both still outstanding when the flushed handler
// finally returns: each of them receives its own reply and nothing else is sent
// (B may reuse the freed tag).
func VerifC07_FlushThenTwo() {
	s := newVSrv(3)
	t := Tag(ndU16("tagA"))
	f := Tag(ndU16("tagF"))
	tb, tc := Tag(ndU16("tagB")), Tag(ndU16("tagC"))
	vAssume(vAnd(f != t, vAnd(tb != tc, vAnd(tb != f, tc != f))))
	payA, payB, payC := ndU32("payA"), ndU32("payB"), ndU32("payC")
	vAssume(vAnd(payA != payB, vAnd(payA != payC, payB != payC)))
	s.h.honour[0] = false
	s.ch.fromPeer <- vReqKind(ndChoice("kindA", vNReqKinds), 0, t, ndU64("markA"))
	<-s.h.started
	s.ch.fromPeer <- &Fcall{Type: Tflush, Tag: f, Message: MessageTflush{Oldtag: t}}
	r := <-s.ch.toPeer
	vAssert(r.Tag == f && r.Type == Rflush, "C07: flush of an outstanding request is acknowledged with Rflush")
	s.ch.fromPeer <- vReq(1, tb, ndU64("markB"))
	<-s.h.started
	s.ch.fromPeer <- vReq(2, tc, ndU64("markC"))
	<-s.h.started
	// the flushed handler returns only now
	s.h.release[0] <- vResFor(0, payA, "")
	vDrain()
	s.h.release[1] <- vResFor(0, payB, "")
	s.h.release[2] <- vResFor(0, payC, "")
	seenB, seenC := 0, 0
	for i := 0; i < 2; i++ {
		r := <-s.ch.toPeer
		rw, ok := r.Message.(MessageRwrite)
		vAssert(ok, "C07: later requests receive replies of their own kind")
		if !ok {
			continue
		}
		vAssert(rw.Count != payA, "C07: no reply to the flushed request is sent after the flush was acknowledged (its result reached another request)")
		if r.Tag == tb && rw.Count == payB {
			seenB++
		} else if r.Tag == tc && rw.Count == payC {
			seenC++
		} else {
			vFail("C07: a later request receives its own reply (tag and result)")
		}
	}
	vAssert(seenB == 1 && seenC == 1, "C07: each later request is answered exactly once")
	s.vNoMoreReplies("C07: no reply to a flushed request is sent after the flush was acknowledged")
	vReach("c07.thentwo")
}

// The same history through the real ServeConn (whatever it sets up for the
// connection) over an in-memory pipe, driven frame by frame from a raw channel.
func VerifC07_FlushThenTwoReal() {
	ca, cb := newVPipe()
	h := newVSrvHandler(3)
	h.honour[0] = false
	ctx, cancel := context.WithCancel(vBG)
	defer cancel()
	go ServeConn(ctx, cb, h)
	ch := NewChannel(ca, DefaultMSize)
	send := func(fc *Fcall) { vAssert(ch.WriteFcall(vBG, fc) == nil, "C07: the request is written") }
	recv := func() *Fcall {
		fc := new(Fcall)
		vAssert(ch.ReadFcall(vBG, fc) == nil, "C07: a reply is read")
		return fc
	}
	send(&Fcall{Type: Tversion, Tag: NOTAG, Message: MessageTversion{MSize: uint32(DefaultMSize), Version: DefaultVersion}})
	rv := recv()
	vAssert(rv.Type == Rversion, "C07: the handshake succeeds")
	payA, payB, payC := uint32(11), uint32(22), uint32(33)
	send(vReq(0, 5, 0))
	<-h.started
	send(&Fcall{Type: Tflush, Tag: 9, Message: MessageTflush{Oldtag: 5}})
	r := recv()
	vAssert(r.Tag == 9 && r.Type == Rflush, "C07: flush of an outstanding request is acknowledged with Rflush")
	tb := Tag([]uint16{5, 6}[ndChoice("reuse", 2)])
	send(vReq(1, tb, 1))
	<-h.started
	send(vReq(2, 7, 2))
	<-h.started
	h.release[0] <- vResFor(0, payA, "")
	vDrain()
	h.release[1] <- vResFor(0, payB, "")
	h.release[2] <- vResFor(0, payC, "")
	seenB, seenC := 0, 0
	for i := 0; i < 2; i++ {
		r := recv()
		rw, ok := r.Message.(MessageRwrite)
		vAssert(ok, "C07: later requests receive replies of their own kind")
		if !ok {
			continue
		}
		vAssert(rw.Count != payA, "C07: no reply to the flushed request is sent after the flush was acknowledged (its result reached another request)")
		if r.Tag == tb && rw.Count == payB {
			seenB++
		} else if r.Tag == 7 && rw.Count == payC {
			seenC++
		} else {
			vFail("C07: a later request receives its own reply (tag and result)")
		}
	}
	vAssert(seenB == 1 && seenC == 1, "C07: each later request is answered exactly once")
	vReach("c07.thentwo.real")
}
