package p9p

// C04 - decoding untrusted bytes is panic-free, proportionate and stable.

import "bytes"

// allocation budget: "small constant plus linear" (DESIGN C04): C0 admits one
// maximal object a 16-bit length can announce, twice, plus slack; C1 per byte.
const (
	vC04C0 = 2*65537 + 4096
	vC04C1 = 64
)

// vC04Decode decodes b with the public codec inside an allocation window and
// checks stability of a successful decode.
func vC04Decode(b []byte) {
	codec := NewCodec()
	var fc Fcall
	vAllocBegin(vC04C0 + vC04C1*len(b))
	err := codec.Unmarshal(b, &fc)
	vAllocEnd()
	vObserve("err", err != nil)
	if err != nil {
		vReach("c04.error")
		return
	}
	vReach("c04.decoded")
	vObserve("type", uint8(fc.Type))
	vAssert(fc.Message != nil, "C04: successful decode yields a message")
	// stability: re-encode, decode again, same value
	enc, err := codec.Marshal(&fc)
	vAssert(err == nil, "C04: a decoded value can be re-encoded")
	var fc2 Fcall
	err = codec.Unmarshal(enc, &fc2)
	vAssert(err == nil, "C04: the re-encoding decodes")
	vAssert(vAnd(fc2.Type == fc.Type, fc2.Tag == fc.Tag), "C04: stable type and tag")
	vAssert(vMsgEq(fc.Message, fc2.Message), "C04: decode(encode(decode(b))) == decode(b)")
	vObserve("enc", enc)
}

// flat: N fully symbolic bytes
func vC04Flat(nmax int) {
	n := ndChoice("n", nmax+1)
	b := ndBytes("b", n)
	vC04Decode(b)
}

func VerifC04_FlatQuick()    { vC04Flat(12) }
func VerifC04_FlatThorough() { vC04Flat(20) }

// template: the reference encoding of a small message of each kind in which
// every length/count field is replaced by a symbolic value of its full width,
// then truncated or extended at a forked position.
func vC04Template(sh *vShape) {
	kind := vAllKinds[ndChoice("kind", len(vAllKinds))]
	tag := Tag(ndU16("tag"))
	msg := ndMessage(kind, sh)
	enc := refEncode(kind, tag, msg)
	b := append([]byte(nil), enc...)
	// positions of length fields: found by encoding a twin with known marker
	// lengths is overkill; instead overwrite a window of 4 bytes at a forked
	// offset >= 3 with symbolic bytes (this covers every 16- and 32-bit length
	// or count field of the layouts, and every other field too).
	if len(b) > 3 {
		off := 3 + ndChoice("off", len(b)-3)
		w := ndBytes("w", 4)
		for i := 0; i < 4 && off+i < len(b); i++ {
			b[off+i] = w[i]
		}
	}
	// truncate or extend
	switch ndChoice("cut", 3) {
	case 1:
		k := 1 + ndChoice("k", 3)
		if k > len(b) {
			k = len(b)
		}
		b = b[:len(b)-k]
	case 2:
		b = append(b, ndBytes("x", 1+ndChoice("xk", 2))...)
	}
	vC04Decode(b)
}

func VerifC04_TemplateQuick()    { vC04Template(&vShapeTiny) }
func VerifC04_TemplateThorough() { vC04Template(&vShapeQuick) }

// unknown type byte
func VerifC04_UnknownType() {
	t := ndU8("t")
	vAssume(vOr(t < 100, vOr(t > 127, vOr(t == 106, false))))
	b := append([]byte{t}, ndBytes("rest", 6)...)
	var fc Fcall
	err := NewCodec().Unmarshal(b, &fc)
	vAssert(err != nil, "C04: unknown type byte is an error")
	vReach("c04.unknown")
}

// DecodeDir from a reader: size prefix symbolic (boundary values and small
// values), content symbolic, reader shorter or longer than announced.
func VerifC04_DecodeDir() {
	lo := ndU8("size.lo")
	hi := ndU8("size.hi")
	size := uint16(lo) | uint16(hi)<<8
	vAssume(vOr(size <= 60, size >= 0xFFFC))
	n := ndChoice("avail", 5)
	avail := []int{0, 1, 47, 49, 62}[n]
	content := ndBytes("c", avail)
	rd := bytes.NewReader(append([]byte{lo, hi}, content...))
	var d Dir
	vAllocBegin(vC04C0 + vC04C1*(2+avail))
	err := DecodeDir(NewCodec(), rd, &d)
	vAllocEnd()
	vObserve("err", err != nil)
	if err == nil {
		vReach("c04.dir.decoded")
		// stability
		enc, err2 := NewCodec().Marshal(d)
		vAssert(err2 == nil, "C04: decoded Dir re-encodes")
		var d2 Dir
		err2 = DecodeDir(NewCodec(), bytes.NewReader(enc), &d2)
		vAssert(err2 == nil, "C04: re-encoded Dir decodes")
		vAssert(vDirEq(d, d2), "C04: Dir decode is stable")
	} else {
		vReach("c04.dir.error")
	}
}
