package p9p

// Reference 9P2000 layouts written from intro(5) / stat(5) (DESIGN.md
// Appendix A), independent of encoding.go.  Used as the oracle of C01 and reused
// by C02, C03, C04, C17.  Also: generators of symbolic messages.

import "time"

func le16(b []byte, v uint16) []byte { return append(b, byte(v), byte(v>>8)) }
func le32(b []byte, v uint32) []byte {
	return append(b, byte(v), byte(v>>8), byte(v>>16), byte(v>>24))
}
func le64(b []byte, v uint64) []byte {
	return append(b, byte(v), byte(v>>8), byte(v>>16), byte(v>>24), byte(v>>32), byte(v>>40), byte(v>>48), byte(v>>56))
}
func refStr(b []byte, s string) []byte {
	b = le16(b, uint16(len(s)))
	return append(b, s...)
}
func refQid(b []byte, q Qid) []byte {
	b = append(b, byte(q.Type))
	b = le32(b, q.Version)
	return le64(b, q.Path)
}

// refStat: size[2] type[2] dev[4] qid[13] mode[4] atime[4] mtime[4] length[8]
// name[s] uid[s] gid[s] muid[s]; size counts the bytes after size[2].
func refStat(b []byte, d Dir) []byte {
	var body []byte
	body = le16(body, d.Type)
	body = le32(body, d.Dev)
	body = refQid(body, d.Qid)
	body = le32(body, d.Mode)
	body = le32(body, uint32(d.AccessTime.Unix()))
	body = le32(body, uint32(d.ModTime.Unix()))
	body = le64(body, d.Length)
	body = refStr(body, d.Name)
	body = refStr(body, d.UID)
	body = refStr(body, d.GID)
	body = refStr(body, d.MUID)
	b = le16(b, uint16(len(body)))
	return append(b, body...)
}

// refEncode returns type[1] tag[2] followed by the manual's field list.
func refEncode(typ FcallType, tag Tag, m Message) []byte {
	b := []byte{byte(typ)}
	b = le16(b, uint16(tag))
	switch m := m.(type) {
	case MessageTversion:
		b = le32(b, m.MSize)
		b = refStr(b, m.Version)
	case MessageRversion:
		b = le32(b, m.MSize)
		b = refStr(b, m.Version)
	case MessageTauth:
		b = le32(b, uint32(m.Afid))
		b = refStr(b, m.Uname)
		b = refStr(b, m.Aname)
	case MessageRauth:
		b = refQid(b, m.Qid)
	case MessageTattach:
		b = le32(b, uint32(m.Fid))
		b = le32(b, uint32(m.Afid))
		b = refStr(b, m.Uname)
		b = refStr(b, m.Aname)
	case MessageRattach:
		b = refQid(b, m.Qid)
	case MessageRerror:
		b = refStr(b, m.Ename)
	case MessageTflush:
		b = le16(b, uint16(m.Oldtag))
	case MessageRflush:
	case MessageTwalk:
		b = le32(b, uint32(m.Fid))
		b = le32(b, uint32(m.Newfid))
		b = le16(b, uint16(len(m.Wnames)))
		for _, w := range m.Wnames {
			b = refStr(b, w)
		}
	case MessageRwalk:
		b = le16(b, uint16(len(m.Qids)))
		for _, q := range m.Qids {
			b = refQid(b, q)
		}
	case MessageTopen:
		b = le32(b, uint32(m.Fid))
		b = append(b, byte(m.Mode))
	case MessageRopen:
		b = refQid(b, m.Qid)
		b = le32(b, m.IOUnit)
	case MessageTcreate:
		b = le32(b, uint32(m.Fid))
		b = refStr(b, m.Name)
		b = le32(b, m.Perm)
		b = append(b, byte(m.Mode))
	case MessageRcreate:
		b = refQid(b, m.Qid)
		b = le32(b, m.IOUnit)
	case MessageTread:
		b = le32(b, uint32(m.Fid))
		b = le64(b, m.Offset)
		b = le32(b, m.Count)
	case MessageRread:
		b = le32(b, uint32(len(m.Data)))
		b = append(b, m.Data...)
	case MessageTwrite:
		b = le32(b, uint32(m.Fid))
		b = le64(b, m.Offset)
		b = le32(b, uint32(len(m.Data)))
		b = append(b, m.Data...)
	case MessageRwrite:
		b = le32(b, m.Count)
	case MessageTclunk:
		b = le32(b, uint32(m.Fid))
	case MessageRclunk:
	case MessageTremove:
		b = le32(b, uint32(m.Fid))
	case MessageRremove:
	case MessageTstat:
		b = le32(b, uint32(m.Fid))
	case MessageRstat:
		st := refStat(nil, m.Stat)
		b = le16(b, uint16(len(st)))
		b = append(b, st...)
	case MessageTwstat:
		b = le32(b, uint32(m.Fid))
		st := refStat(nil, m.Stat)
		b = le16(b, uint16(len(st)))
		b = append(b, st...)
	case MessageRwstat:
	default:
		vFail("refEncode: unknown message kind")
	}
	return b
}

// ---------------------------------------------------------------------------
// symbolic message generators

var vAllKinds = []FcallType{
	Tversion, Rversion, Tauth, Rauth, Tattach, Rattach, Rerror, Tflush, Rflush,
	Twalk, Rwalk, Topen, Ropen, Tcreate, Rcreate, Tread, Rread, Twrite, Rwrite,
	Tclunk, Rclunk, Tremove, Rremove, Tstat, Rstat, Twstat, Rwstat,
}

// vShape bounds the explored shapes (lengths are choice points; contents and
// integers are symbolic).
type vShape struct {
	strLens  []int
	dataLens []int
	listLens []int
	dirLens  []int // lengths of the four Dir strings
}

var vShapeTiny = vShape{strLens: []int{0, 2}, dataLens: []int{0, 3}, listLens: []int{0, 2}, dirLens: []int{0, 1}}
var vShapeQuick = vShape{strLens: []int{0, 1, 3}, dataLens: []int{0, 1, 5}, listLens: []int{0, 1, 2}, dirLens: []int{0, 2}}
var vShapeThorough = vShape{strLens: []int{0, 1, 2, 3, 4}, dataLens: []int{0, 1, 2, 4, 8}, listLens: []int{0, 1, 2, 3, 4}, dirLens: []int{0, 1, 2}}

func vPick(name string, opts []int) int { return opts[ndChoice(name, len(opts))] }

func ndStr(name string, lens []int) string { return ndString(name, vPick(name+".len", lens)) }

func ndQid(name string) Qid {
	return Qid{Type: QType(ndU8(name + ".type")), Version: ndU32(name + ".vers"), Path: ndU64(name + ".path")}
}

func ndDir(name string, sh *vShape) Dir {
	return Dir{
		Type:       ndU16(name + ".type"),
		Dev:        ndU32(name + ".dev"),
		Qid:        ndQid(name + ".qid"),
		Mode:       ndU32(name + ".mode"),
		AccessTime: time.Unix(int64(ndU32(name+".atime")), 0).UTC(),
		ModTime:    time.Unix(int64(ndU32(name+".mtime")), 0).UTC(),
		Length:     ndU64(name + ".length"),
		Name:       ndStr(name+".name", sh.dirLens),
		UID:        ndStr(name+".uid", sh.dirLens),
		GID:        ndStr(name+".gid", sh.dirLens),
		MUID:       ndStr(name+".muid", sh.dirLens),
	}
}

func ndMessage(typ FcallType, sh *vShape) Message {
	switch typ {
	case Tversion:
		return MessageTversion{MSize: ndU32("msize"), Version: ndStr("version", sh.strLens)}
	case Rversion:
		return MessageRversion{MSize: ndU32("msize"), Version: ndStr("version", sh.strLens)}
	case Tauth:
		return MessageTauth{Afid: Fid(ndU32("afid")), Uname: ndStr("uname", sh.strLens), Aname: ndStr("aname", sh.strLens)}
	case Rauth:
		return MessageRauth{Qid: ndQid("aqid")}
	case Tattach:
		return MessageTattach{Fid: Fid(ndU32("fid")), Afid: Fid(ndU32("afid")), Uname: ndStr("uname", sh.strLens), Aname: ndStr("aname", sh.strLens)}
	case Rattach:
		return MessageRattach{Qid: ndQid("qid")}
	case Rerror:
		return MessageRerror{Ename: ndStr("ename", sh.strLens)}
	case Tflush:
		return MessageTflush{Oldtag: Tag(ndU16("oldtag"))}
	case Rflush:
		return MessageRflush{}
	case Twalk:
		n := vPick("nwname", sh.listLens)
		names := make([]string, n)
		for i := range names {
			names[i] = ndStr("wname", sh.strLens)
		}
		return MessageTwalk{Fid: Fid(ndU32("fid")), Newfid: Fid(ndU32("newfid")), Wnames: names}
	case Rwalk:
		n := vPick("nwqid", sh.listLens)
		qids := make([]Qid, n)
		for i := range qids {
			qids[i] = ndQid("wqid")
		}
		return MessageRwalk{Qids: qids}
	case Topen:
		return MessageTopen{Fid: Fid(ndU32("fid")), Mode: Flag(ndU8("mode"))}
	case Ropen:
		return MessageRopen{Qid: ndQid("qid"), IOUnit: ndU32("iounit")}
	case Tcreate:
		return MessageTcreate{Fid: Fid(ndU32("fid")), Name: ndStr("name", sh.strLens), Perm: ndU32("perm"), Mode: Flag(ndU8("mode"))}
	case Rcreate:
		return MessageRcreate{Qid: ndQid("qid"), IOUnit: ndU32("iounit")}
	case Tread:
		return MessageTread{Fid: Fid(ndU32("fid")), Offset: ndU64("offset"), Count: ndU32("count")}
	case Rread:
		return MessageRread{Data: ndBytes("data", vPick("data.len", sh.dataLens))}
	case Twrite:
		return MessageTwrite{Fid: Fid(ndU32("fid")), Offset: ndU64("offset"), Data: ndBytes("data", vPick("data.len", sh.dataLens))}
	case Rwrite:
		return MessageRwrite{Count: ndU32("count")}
	case Tclunk:
		return MessageTclunk{Fid: Fid(ndU32("fid"))}
	case Rclunk:
		return MessageRclunk{}
	case Tremove:
		return MessageTremove{Fid: Fid(ndU32("fid"))}
	case Rremove:
		return MessageRremove{}
	case Tstat:
		return MessageTstat{Fid: Fid(ndU32("fid"))}
	case Rstat:
		return MessageRstat{Stat: ndDir("stat", sh)}
	case Twstat:
		return MessageTwstat{Fid: Fid(ndU32("fid")), Stat: ndDir("stat", sh)}
	case Rwstat:
		return MessageRwstat{}
	}
	vFail("ndMessage: unknown kind")
	return nil
}

// ---------------------------------------------------------------------------
// field-by-field equality (value equality per DESIGN 3.5: nil and empty byte
// slices are equal, times compare by Unix seconds)

func vQidEq(a, b Qid) bool {
	return vAnd(a.Type == b.Type, vAnd(a.Version == b.Version, a.Path == b.Path))
}

func vDirEq(a, b Dir) bool {
	r := vAnd(a.Type == b.Type, a.Dev == b.Dev)
	r = vAnd(r, vQidEq(a.Qid, b.Qid))
	r = vAnd(r, a.Mode == b.Mode)
	r = vAnd(r, a.AccessTime.Unix() == b.AccessTime.Unix())
	r = vAnd(r, a.ModTime.Unix() == b.ModTime.Unix())
	r = vAnd(r, a.Length == b.Length)
	r = vAnd(r, vEqStr(a.Name, b.Name))
	r = vAnd(r, vEqStr(a.UID, b.UID))
	r = vAnd(r, vEqStr(a.GID, b.GID))
	r = vAnd(r, vEqStr(a.MUID, b.MUID))
	return r
}

// vMsgEq compares two messages of the same dynamic type; different dynamic
// types are unequal.
func vMsgEq(x, y Message) bool {
	switch a := x.(type) {
	case MessageTversion:
		b, ok := y.(MessageTversion)
		return ok && vAnd(a.MSize == b.MSize, vEqStr(a.Version, b.Version))
	case MessageRversion:
		b, ok := y.(MessageRversion)
		return ok && vAnd(a.MSize == b.MSize, vEqStr(a.Version, b.Version))
	case MessageTauth:
		b, ok := y.(MessageTauth)
		return ok && vAnd(a.Afid == b.Afid, vAnd(vEqStr(a.Uname, b.Uname), vEqStr(a.Aname, b.Aname)))
	case MessageRauth:
		b, ok := y.(MessageRauth)
		return ok && vQidEq(a.Qid, b.Qid)
	case MessageTattach:
		b, ok := y.(MessageTattach)
		return ok && vAnd(vAnd(a.Fid == b.Fid, a.Afid == b.Afid), vAnd(vEqStr(a.Uname, b.Uname), vEqStr(a.Aname, b.Aname)))
	case MessageRattach:
		b, ok := y.(MessageRattach)
		return ok && vQidEq(a.Qid, b.Qid)
	case MessageRerror:
		b, ok := y.(MessageRerror)
		return ok && vEqStr(a.Ename, b.Ename)
	case MessageTflush:
		b, ok := y.(MessageTflush)
		return ok && a.Oldtag == b.Oldtag
	case MessageRflush:
		_, ok := y.(MessageRflush)
		return ok
	case MessageTwalk:
		b, ok := y.(MessageTwalk)
		if !ok || len(a.Wnames) != len(b.Wnames) {
			return false
		}
		r := vAnd(a.Fid == b.Fid, a.Newfid == b.Newfid)
		for i := range a.Wnames {
			r = vAnd(r, vEqStr(a.Wnames[i], b.Wnames[i]))
		}
		return r
	case MessageRwalk:
		b, ok := y.(MessageRwalk)
		if !ok || len(a.Qids) != len(b.Qids) {
			return false
		}
		r := true
		for i := range a.Qids {
			r = vAnd(r, vQidEq(a.Qids[i], b.Qids[i]))
		}
		return r
	case MessageTopen:
		b, ok := y.(MessageTopen)
		return ok && vAnd(a.Fid == b.Fid, a.Mode == b.Mode)
	case MessageRopen:
		b, ok := y.(MessageRopen)
		return ok && vAnd(vQidEq(a.Qid, b.Qid), a.IOUnit == b.IOUnit)
	case MessageTcreate:
		b, ok := y.(MessageTcreate)
		return ok && vAnd(vAnd(a.Fid == b.Fid, vEqStr(a.Name, b.Name)), vAnd(a.Perm == b.Perm, a.Mode == b.Mode))
	case MessageRcreate:
		b, ok := y.(MessageRcreate)
		return ok && vAnd(vQidEq(a.Qid, b.Qid), a.IOUnit == b.IOUnit)
	case MessageTread:
		b, ok := y.(MessageTread)
		return ok && vAnd(a.Fid == b.Fid, vAnd(a.Offset == b.Offset, a.Count == b.Count))
	case MessageRread:
		b, ok := y.(MessageRread)
		return ok && vEqBytes(a.Data, b.Data)
	case MessageTwrite:
		b, ok := y.(MessageTwrite)
		return ok && vAnd(a.Fid == b.Fid, vAnd(a.Offset == b.Offset, vEqBytes(a.Data, b.Data)))
	case MessageRwrite:
		b, ok := y.(MessageRwrite)
		return ok && a.Count == b.Count
	case MessageTclunk:
		b, ok := y.(MessageTclunk)
		return ok && a.Fid == b.Fid
	case MessageRclunk:
		_, ok := y.(MessageRclunk)
		return ok
	case MessageTremove:
		b, ok := y.(MessageTremove)
		return ok && a.Fid == b.Fid
	case MessageRremove:
		_, ok := y.(MessageRremove)
		return ok
	case MessageTstat:
		b, ok := y.(MessageTstat)
		return ok && a.Fid == b.Fid
	case MessageRstat:
		b, ok := y.(MessageRstat)
		return ok && vDirEq(a.Stat, b.Stat)
	case MessageTwstat:
		b, ok := y.(MessageTwstat)
		return ok && vAnd(a.Fid == b.Fid, vDirEq(a.Stat, b.Stat))
	case MessageRwstat:
		_, ok := y.(MessageRwstat)
		return ok
	}
	return false
}
