package p9p

// C17 - directory reads deliver every entry exactly once, whole and in order.

import (
	"context"
	"io"
)

func vC17Listing(maxN int, lens []int) []Dir {
	n := ndChoice("nent", maxN+1)
	dirs := make([]Dir, n)
	for i := range dirs {
		sh := vShape{dirLens: lens}
		d := ndDir("ent", &vShape{dirLens: []int{0}})
		d.Name = ndStr("ent.name", sh.dirLens)
		d.UID = ndStr("ent.uid", sh.dirLens)
		dirs[i] = d
	}
	return dirs
}

// vC17Batches turns the listing into a ReadNext delivering batches of explored
// sizes; after the listing it returns an empty batch.  failAt >= 0 makes the
// call number failAt return an error.
func vC17Batches(dirs []Dir, failAt int) ReadNext {
	rest := dirs
	calls := 0
	return func(ctx context.Context) ([]Dir, error) {
		if calls == failAt {
			calls++
			return nil, errVMock
		}
		calls++
		if len(rest) == 0 {
			return nil, nil
		}
		k := 1 + ndChoice("batch", len(rest))
		b := rest[:k]
		rest = rest[k:]
		return b, nil
	}
}

func vC17Run(rd *Readdir, dirs []Dir, maxReads int) {
	var sizes []int
	var ref []byte
	largest := 0
	for _, d := range dirs {
		e := refStat(nil, d)
		sizes = append(sizes, len(e))
		if len(e) > largest {
			largest = len(e)
		}
		ref = append(ref, e...)
	}
	// boundary read counts: largest entry, prefix sums -1/0/+1, total+1
	cands := []int{largest, len(ref) + 1}
	sum := 0
	for _, s := range sizes {
		sum += s
		for _, c := range []int{sum - 1, sum, sum + 1} {
			if c >= largest {
				cands = append(cands, c)
			}
		}
	}
	if largest == 0 {
		cands = []int{0, 1, 64}
	}
	off := 0
	var got []byte
	ended := false
	for r := 0; r < maxReads; r++ {
		count := cands[ndChoice("count", len(cands))]
		// the caller's buffer is a window of a larger array: nothing beyond the
		// requested count may be written or reported
		big := make([]byte, count+40)
		for i := range big {
			big[i] = 0xEE
		}
		buf := big[:count]
		// a read at any other offset is rejected (and does not disturb the stream)
		if r == 1 {
			wrong := ndI64("wrongoff")
			vAssume(wrong != int64(off))
			n0, err0 := rd.Read(vBG, buf, wrong)
			vAssert(err0 == ErrBadoffset && n0 == 0, "C17: read at any other offset is rejected")
		}
		n, err := rd.Read(vBG, buf, int64(off))
		vAssert(err == nil, "C17: read at the running offset succeeds")
		vAssert(n <= count, "C17: at most the requested number of bytes")
		for i := count; i < len(big); i++ {
			vAssert(big[i] == 0xEE, "C17: nothing is written beyond the requested count")
		}
		chunk := buf[:n]
		// whole entries only: n is a sum of consecutive entry sizes from the current position
		vAssert(off+n <= len(ref), "C17: never more than the listing")
		vAssertEqBytes(chunk, ref[off:off+n], "C17: reply is the next part of the listing in order")
		whole := false
		acc := 0
		if n == 0 {
			whole = true
		}
		pos := 0
		for i, s := range sizes {
			if pos == off {
				acc = 0
				for _, s2 := range sizes[i:] {
					acc += s2
					if acc == n {
						whole = true
					}
				}
			}
			pos += s
		}
		vAssert(whole, "C17: reply consists of whole entries only")
		if n == 0 {
			vAssert(off == len(ref), "C17: an empty read happens only at the end of the listing (counts >= largest entry)")
			ended = true
			break
		}
		got = append(got, chunk...)
		off += n
	}
	if ended {
		vAssertEqBytes(got, ref, "C17: concatenation of replies is the whole listing, each entry exactly once")
		vReach("c17.ended")
	} else {
		vReach("c17.more")
	}
	vObserve("off", off)
}

func vC17Readdir(maxN int, lens []int, maxReads int) {
	dirs := vC17Listing(maxN, lens)
	var rd *Readdir
	if ndChoice("ctor", 2) == 0 {
		rd = NewReaddir(NewCodec(), vC17Batches(dirs, -1))
	} else {
		rd = NewFixedReaddir(NewCodec(), dirs)
	}
	vC17Run(rd, dirs, maxReads)
}

func VerifC17_ReaddirQuick()    { vC17Readdir(2, []int{0, 2}, 4) }
func VerifC17_ReaddirThorough() { vC17Readdir(2, []int{0, 1, 3}, 5) }

// iterator error at an explored call: the data delivered is still a prefix of
// the listing made of whole entries, and the error is reported.
func VerifC17_IterError() {
	dirs := vC17Listing(2, []int{0, 2})
	failAt := ndChoice("failAt", 3)
	rd := NewReaddir(NewCodec(), vC17Batches(dirs, failAt))
	var ref []byte
	for _, d := range dirs {
		ref = refStat(ref, d)
	}
	buf := make([]byte, len(ref)+8)
	n, err := rd.Read(vBG, buf, 0)
	vAssert(n <= len(ref), "C17: no more than the listing")
	vAssertEqBytes(buf[:n], ref[:n], "C17: data before an iterator error is a prefix of the listing")
	if err != nil {
		vAssert(err != io.EOF, "C17: EOF is not surfaced")
		vReach("c17.itererr")
	} else {
		vReach("c17.iterok")
	}
	// the iterator's error was transient: reading on at the running offset
	// delivers the rest, so that every entry is delivered exactly once
	got := append([]byte(nil), buf[:n]...)
	off := int64(n)
	for k := 0; k < 4; k++ {
		m, err2 := rd.Read(vBG, buf, off)
		got = append(got, buf[:m]...)
		off += int64(m)
		if m == 0 && err2 == nil {
			break
		}
	}
	vAssertEqBytes(got, ref, "C17: successive reads at the running offset deliver every entry exactly once, also across an iterator error")
}

// ---- client layer: CFileSys OpenDir over a session that clips reads to
// msize-11 (as the wire does) must deliver exactly the server's entries.

type vListFS struct {
	vStubFS
	listing []Dir
}

type vListRoot struct {
	*vStubEnt
	fs *vListFS
}

func (fs *vListFS) Attach(ctx context.Context, uname, aname string, af AuthFile) (Dirent, error) {
	return vListRoot{fs.newEnt(true), fs}, nil
}

func (r vListRoot) OpenDir(ctx context.Context) (ReadNext, error) {
	sent := false
	return func(context.Context) ([]Dir, error) {
		if sent {
			return nil, nil
		}
		sent = true
		return r.fs.listing, nil
	}, nil
}

// vClipSession clips Read to msize-11 and reports msize as its version.
type vClipSession struct {
	Session
	msize int
}

func (s vClipSession) Read(ctx context.Context, fid Fid, p []byte, offset int64) (int, error) {
	if len(p) > s.msize-11 {
		p = p[:s.msize-11]
	}
	return s.Session.Read(ctx, fid, p, offset)
}
func (s vClipSession) Version() (int, string) { return s.msize, DefaultVersion }

func vC17Client(maxN int, lens []int) {
	dirs := vC17Listing(maxN, lens)
	largest, total := 0, 0
	for _, d := range dirs {
		n := len(refStat(nil, d))
		total += n
		if n > largest {
			largest = n
		}
	}
	fs := &vListFS{listing: dirs}
	fs.noFail = true
	// negotiated msize: every boundary that matters for the read size msize-11
	cands := []int{largest + 11, largest + 12, total + 10, total + 11, total + 12, 8192}
	if largest == 0 {
		cands = []int{24, 8192}
	}
	msize := cands[ndChoice("msize", len(cands))]
	if msize < largest+11 {
		msize = largest + 11
	}
	cfs := CFileSys(vClipSession{SFileSys(fs), msize})
	root, err := cfs.Attach(vBG, "u", "a", nil)
	vAssert(err == nil, "C17: attach")
	next, err := root.OpenDir(vBG)
	vAssert(err == nil, "C17: opendir through the client layer")
	var got []Dir
	for i := 0; i < len(dirs)+2; i++ {
		batch, err := next(vBG)
		vAssert(err == nil, "C17: listing through the client layer succeeds")
		if len(batch) == 0 {
			break
		}
		got = append(got, batch...)
	}
	vAssert(len(got) == len(dirs), "C17: the client obtains exactly as many entries as the server listed")
	for i := range got {
		if i < len(dirs) {
			vAssert(vDirEq(got[i], dirs[i]), "C17: the client obtains exactly the server's entries, in order")
		}
	}
	vObserve("n", len(got))
	vReach("c17.client")
}

func VerifC17_ClientQuick()    { vC17Client(2, []int{0, 2}) }
func VerifC17_ClientThorough() { vC17Client(2, []int{0, 1, 3}) }
