package p9p

// C12 - client calls never hang, and the client survives a misbehaving peer.

import (
	"context"
	"io"
)

type vC12Res struct {
	done bool
	msg  Message
	err  error
}

func vC12Faults(maxPending int) {
	ch := newVPeerChannel()
	ctx, cancel := context.WithCancel(vBG)
	defer cancel()
	t := newTransport(ctx, ch)
	k := 1 + ndChoice("pending", maxPending)
	res := make([]vC12Res, k+1)
	doneCh := make(chan int, k+1)
	cancels := make([]context.CancelFunc, k+1)
	call := func(i int) {
		cctx, ccancel := context.WithCancel(vBG)
		cancels[i] = ccancel
		go func() {
			m, err := t.send(cctx, MessageTclunk{Fid: Fid(i)})
			res[i] = vC12Res{done: true, msg: m, err: err}
			doneCh <- i
		}()
	}
	tags := make([]Tag, k+1)
	for i := 0; i < k; i++ {
		call(i)
		req := <-ch.toPeer
		tags[int(req.Message.(MessageTclunk).Fid)] = req.Tag
	}
	fault := ndChoice("fault", 4)
	switch fault {
	case 0: // fatal read error / peer close
		if ndChoice("eof", 2) == 1 {
			ch.errs <- io.EOF
		} else {
			ch.errs <- errVMock
		}
	case 1: // the connection fails on write, then on read
		ch.wfailAt = ch.nwrites + 1
		call(k)
		<-doneCh
		vAssert(res[k].err != nil, "C12: a call whose request cannot be written returns an error")
		ch.errs <- errVMock
	case 2: // the session's context is cancelled
		cancel()
	case 3: // one call's own context ends
		cancels[0]()
	}
	if fault == 3 {
		i := <-doneCh
		vAssert(i == 0, "C12: only the cancelled call returns")
		vAssert(res[0].err != nil, "C12: a call whose own context ends returns an error promptly")
		// the other calls are not disturbed: they still get their replies
		for j := 1; j < k; j++ {
			ch.fromPeer <- &Fcall{Type: Rclunk, Tag: tags[j], Message: MessageRclunk{}}
			<-doneCh
			vAssert(res[j].done && res[j].err == nil, "C12: a per-call cancellation does not disturb other calls")
		}
		// and a later call works
		call(k)
		req := <-ch.toPeer
		ch.fromPeer <- &Fcall{Type: Rclunk, Tag: req.Tag, Message: MessageRclunk{}}
		<-doneCh
		vAssert(res[k].err == nil, "C12: the session keeps working after a per-call cancellation")
		vReach("c12.percall")
		return
	}
	// every pending call returns an error (a call that never returns is a deadlock)
	n := k
	for ; n > 0; n-- {
		<-doneCh
	}
	for i := 0; i < k; i++ {
		vAssert(res[i].done && res[i].err != nil, "C12: every pending call returns an error when the connection fails or the session is cancelled")
	}
	// and so does every later call
	last := k
	if fault == 1 {
		last = k // slot reused
		res[k] = vC12Res{}
	}
	call(last)
	<-doneCh
	vAssert(res[last].done && res[last].err != nil, "C12: every later call returns an error")
	vReach("c12.faults")
}

// A call whose context has already ended (so that its request cannot even be
// written) returns promptly and does not disturb the session: later calls work.
func VerifC12_DeadCall() {
	ch := newVPeerChannel()
	ctx, cancel := context.WithCancel(vBG)
	defer cancel()
	t := newTransport(ctx, ch)
	n := 1 + ndChoice("ndead", 2)
	for i := 0; i < n; i++ {
		cctx, ccancel := context.WithCancel(vBG)
		ccancel()
		_, err := t.send(cctx, MessageTclunk{Fid: Fid(i)})
		vAssert(err != nil, "C12: a call whose own context has ended returns an error promptly")
	}
	doneCh := make(chan error, 1)
	go func() {
		_, err := t.send(vBG, MessageTclunk{Fid: 9})
		doneCh <- err
	}()
	req := <-ch.toPeer // a session wedged by the dead calls is reported as a deadlock
	ch.fromPeer <- &Fcall{Type: Rclunk, Tag: req.Tag, Message: MessageRclunk{}}
	vAssert(<-doneCh == nil, "C12: a call whose own context ends does not disturb other calls")
	vReach("c12.deadcall")
}

func VerifC12_FaultsQuick()    { vC12Faults(1) }
func VerifC12_FaultsThorough() { vC12Faults(2) }

// A peer that sends replies with arbitrary tags and types must not crash the
// client; wrong-typed replies surface as errors.
func VerifC12_HostilePeer() {
	ch := newVPeerChannel()
	ctx, cancel := context.WithCancel(vBG)
	defer cancel()
	c := &client{transport: newTransport(ctx, ch), ctx: ctx, msize: 8192, version: DefaultVersion}
	doneCh := make(chan error, 1)
	go func() { doneCh <- c.Clunk(vBG, 7) }()
	req := <-ch.toPeer
	tag := Tag(ndU16("replytag"))
	kind := ndChoice("replykind", 3)
	etext := ndString("etext", 2)
	mk := func(tg Tag) *Fcall {
		switch kind {
		case 0:
			return &Fcall{Type: Rclunk, Tag: tg, Message: MessageRclunk{}}
		case 1:
			return &Fcall{Type: Rwrite, Tag: tg, Message: MessageRwrite{Count: ndU32("count")}}
		}
		return &Fcall{Type: Rerror, Tag: tg, Message: MessageRerror{Ename: etext}}
	}
	ch.fromPeer <- mk(tag)
	if tag != req.Tag {
		// a reply nobody waits for: the client must survive it and the pending
		// call must still be answerable
		vDrain()
		vAssert(len(doneCh) == 0, "C12: a reply with an unknown tag is not delivered to the pending call")
		ch.fromPeer <- mk(req.Tag)
		vReach("c12.unknowntag")
	}
	err := <-doneCh
	switch kind {
	case 0:
		vAssert(err == nil, "C12: the right reply completes the call")
	case 1:
		vAssert(err == ErrUnexpectedMsg, "C12: a reply of the wrong type surfaces as an error")
	default:
		re, ok := err.(MessageRerror)
		vAssert(ok && vEqStr(re.Ename, etext), "C12: an error reply becomes the call's error")
	}
	// a repeated reply for an already answered tag must not crash the client either
	if ndChoice("repeat", 2) == 1 {
		ch.fromPeer <- mk(req.Tag)
		vDrain()
		vReach("c12.repeated")
	}
	// the client still works
	go func() { doneCh <- c.Clunk(vBG, 8) }()
	req2 := <-ch.toPeer
	ch.fromPeer <- &Fcall{Type: Rclunk, Tag: req2.Tag, Message: MessageRclunk{}}
	vAssert(<-doneCh == nil, "C12: the client keeps working after a misbehaving reply")
	vReach("c12.hostile")
}

// larger configuration, explored delay-bounded (see check spec)
func VerifC12_Faults3() { vC12Faults(3) }


// A hostile (or merely fast) peer answers a request whose write has not yet
// completed, and then that write fails: the call has its reply, and the client
// must keep working - later calls are served, nothing hangs.
func VerifC12_EarlyReplyThenWriteFailure() {
	ch := newVPeerChannel()
	ch.werrs = make(chan error)
	ctx, cancel := context.WithCancel(vBG)
	defer cancel()
	t := newTransport(ctx, ch)
	doneCh := make(chan error, 2)
	go func() {
		_, err := t.send(vBG, MessageTclunk{Fid: 1})
		doneCh <- err
	}()
	vDrain() // the request is tagged (first tag handed out is 1) and its write is blocked
	early := ndChoice("early", 2) == 1
	if early {
		ch.fromPeer <- &Fcall{Type: Rclunk, Tag: 1, Message: MessageRclunk{}}
		vAssert(<-doneCh == nil, "C12: a reply carrying the call's tag completes the call")
	}
	ch.werrs <- errVMock // the blocked write fails
	if !early {
		vAssert(<-doneCh != nil, "C12: a call whose request cannot be written returns an error")
	}
	// the client still works
	go func() {
		_, err := t.send(vBG, MessageTclunk{Fid: 2})
		doneCh <- err
	}()
	req2 := <-ch.toPeer // a wedged client is reported as a deadlock
	ch.fromPeer <- &Fcall{Type: Rclunk, Tag: req2.Tag, Message: MessageRclunk{}}
	vAssert(<-doneCh == nil, "C12: the client keeps working after a failed write")
	vReach("c12.earlyreply")
}
