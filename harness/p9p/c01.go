package p9p

// C01 - wire format conforms to 9P2000 and round-trips (DESIGN.md section 5).

// vC01 checks one message kind through the public Codec only.
func vC01(sh *vShape) {
	kind := vAllKinds[ndChoice("kind", len(vAllKinds))]
	tag := Tag(ndU16("tag"))
	msg := ndMessage(kind, sh)
	fc := &Fcall{Type: kind, Tag: tag, Message: msg}
	codec := NewCodec()

	want := refEncode(kind, tag, msg)
	got, err := codec.Marshal(fc)
	vAssert(err == nil, "C01: Marshal of a representable message succeeds")
	vAssert(len(got) == len(want), "C01: encoded length equals the manual's layout")
	vAssertEqBytes(got, want, "C01: encoding is byte-for-byte the manual's layout")
	vAssert(codec.Size(fc) == len(got), "C01: Size equals number of bytes produced")

	var back Fcall
	err = codec.Unmarshal(got, &back)
	vAssert(err == nil, "C01: decoding the encoding succeeds")
	vAssert(back.Type == kind, "C01: decoded type equals original")
	vAssert(back.Tag == tag, "C01: decoded tag equals original")
	vAssert(vMsgEq(msg, back.Message), "C01: decoded message equals original field by field")
	if d, ok := back.Message.(MessageRstat); ok {
		vAssert(d.Stat.ModTime.Location().String() == "UTC", "C01: decoded time is UTC")
	}
	vObserve("kind", uint8(kind))
	vObserve("enc", got)
	vReach("c01.done")
}

func VerifC01_Tiny()     { vC01(&vShapeTiny) }
func VerifC01_Quick()    { vC01(&vShapeQuick) }
func VerifC01_Thorough() { vC01(&vShapeThorough) }
