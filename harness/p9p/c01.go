package p9p

// C01 - wire format conforms to 9P2000 and round-trips (DESIGN.md section 5).

// vC01 checks one message kind through the public Codec only.
func vC01(sh *vShape) {
	kind := vAllKinds[ndChoice("kind", len(vAllKinds))]
	tag := Tag(ndU16("tag"))
	msg := ndMessage(kind, sh)
	fc := &Fcall{Type: kind, Tag: tag, Message: msg}
	codec := NewCodec()

	want := refEncode(kind, tag, msg)
	got, err := codec.Marshal(fc)
	vAssert(err == nil, "C01: Marshal of a representable message succeeds")
	vAssert(len(got) == len(want), "C01: encoded length equals the manual's layout")
	vAssertEqBytes(got, want, "C01: encoding is byte-for-byte the manual's layout")
	vAssert(codec.Size(fc) == len(got), "C01: Size equals number of bytes produced")

	// the encoding is a value of its own: a later use of the same codec leaves it as it was
	other, _ := codec.Marshal(&Fcall{Type: Tflush, Tag: 1, Message: MessageTflush{Oldtag: 2}})
	_ = other
	vAssertEqBytes(got, want, "C01: encoding stays byte-for-byte the manual's layout after the codec was used again")

	var back Fcall
	err = codec.Unmarshal(got, &back)
	vAssert(err == nil, "C01: decoding the encoding succeeds")
	vAssert(back.Type == kind, "C01: decoded type equals original")
	vAssert(back.Tag == tag, "C01: decoded tag equals original")
	vAssert(vMsgEq(msg, back.Message), "C01: decoded message equals original field by field")
	// the decoded message is a value of its own: it stays equal to the original
	// when the caller reuses the buffer it was decoded from
	for i := range got {
		got[i] ^= 0xFF
	}
	vAssert(vMsgEq(msg, back.Message), "C01: decoded message equals original also after the input buffer was reused")
	if d, ok := back.Message.(MessageRstat); ok {
		vAssert(d.Stat.ModTime.Location().String() == "UTC", "C01: decoded time is UTC")
	}
	vObserve("kind", uint8(kind))
	vObserve("enc", got)
	vReach("c01.done")
}

func VerifC01_Tiny()     { vC01(&vShapeTiny) }
func VerifC01_Quick()    { vC01(&vShapeQuick) }
func VerifC01_Thorough() { vC01(&vShapeThorough) }

// ---- boundary lengths -----------------------------------------------------------
// Strings, data and lists at the lengths where a width matters (255/256, 65535,
// 65536, the largest stat record that is still representable).  Contents are a
// concrete pattern except the first and last byte, which stay symbolic; all
// integer fields stay symbolic.
func vBigBytes(name string, n int) []byte {
	b := make([]byte, n)
	for i := range b {
		b[i] = byte(i*7 + 1)
	}
	if n > 0 {
		b[0] = ndU8(name + ".first")
		b[n-1] = ndU8(name + ".last")
	}
	return b
}

func vC01Big(strLens, dataLens, listLens []int) {
	tag := Tag(ndU16("tag"))
	var kind FcallType
	var msg Message
	bigStr := func(name string) string { return string(vBigBytes(name, vPick(name+".len", strLens))) }
	switch ndChoice("case", 11) {
	case 0:
		kind, msg = Tversion, MessageTversion{MSize: ndU32("msize"), Version: bigStr("version")}
	case 1:
		kind, msg = Rerror, MessageRerror{Ename: bigStr("ename")}
	case 2:
		kind, msg = Tauth, MessageTauth{Afid: Fid(ndU32("afid")), Uname: bigStr("uname"), Aname: ndString("aname", 1)}
	case 3:
		kind, msg = Tattach, MessageTattach{Fid: Fid(ndU32("fid")), Afid: Fid(ndU32("afid")), Uname: ndString("uname", 1), Aname: bigStr("aname")}
	case 4:
		kind, msg = Tcreate, MessageTcreate{Fid: Fid(ndU32("fid")), Name: bigStr("name"), Perm: ndU32("perm"), Mode: Flag(ndU8("mode"))}
	case 5:
		n := vPick("nwname", listLens)
		names := make([]string, n)
		for i := range names {
			names[i] = string([]byte{byte('a' + i%26)})
		}
		if n > 0 {
			names[0] = ndString("wname.first", 1)
			names[n-1] = bigStr("wname.last")
		}
		kind, msg = Twalk, MessageTwalk{Fid: Fid(ndU32("fid")), Newfid: Fid(ndU32("newfid")), Wnames: names}
	case 6:
		n := vPick("nwqid", listLens)
		qids := make([]Qid, n)
		for i := range qids {
			qids[i] = Qid{Type: QType(i), Version: uint32(i) * 3, Path: uint64(i) * 0x0101010101}
		}
		if n > 0 {
			qids[0] = ndQid("wqid.first")
			qids[n-1] = ndQid("wqid.last")
		}
		kind, msg = Rwalk, MessageRwalk{Qids: qids}
	case 7:
		kind, msg = Rread, MessageRread{Data: vBigBytes("data", vPick("data.len", dataLens))}
	case 8:
		kind, msg = Twrite, MessageTwrite{Fid: Fid(ndU32("fid")), Offset: ndU64("offset"), Data: vBigBytes("data", vPick("data.len", dataLens))}
	case 9, 10:
		d := ndDir("stat", &vShapeTiny)
		// one long string; the largest name for which Rstat's outer size field
		// (stat size + 2) still fits 16 bits is 65486 - (other strings)
		which := ndChoice("stat.which", 4)
		room := 65486 - len(d.Name) - len(d.UID) - len(d.GID) - len(d.MUID)
		lens := append([]int{}, strLens...)
		lens = append(lens, room)
		l := vPick("stat.len", lens)
		if l > room {
			l = room
		}
		switch which {
		case 0:
			l += len(d.Name)
			d.Name = string(vBigBytes("stat.name", l))
		case 1:
			l += len(d.UID)
			d.UID = string(vBigBytes("stat.uid", l))
		case 2:
			l += len(d.GID)
			d.GID = string(vBigBytes("stat.gid", l))
		case 3:
			l += len(d.MUID)
			d.MUID = string(vBigBytes("stat.muid", l))
		}
		if ndChoice("stat.t", 2) == 0 {
			kind, msg = Rstat, MessageRstat{Stat: d}
		} else {
			kind, msg = Twstat, MessageTwstat{Fid: Fid(ndU32("fid")), Stat: d}
		}
	}
	fc := &Fcall{Type: kind, Tag: tag, Message: msg}
	codec := NewCodec()
	want := refEncode(kind, tag, msg)
	got, err := codec.Marshal(fc)
	vAssert(err == nil, "C01: Marshal of a representable message succeeds")
	vAssert(len(got) == len(want), "C01: encoded length equals the manual's layout")
	vAssertEqBytes(got, want, "C01: encoding is byte-for-byte the manual's layout")
	vAssert(codec.Size(fc) == len(got), "C01: Size equals number of bytes produced")
	var back Fcall
	err = codec.Unmarshal(got, &back)
	vAssert(err == nil, "C01: decoding the encoding succeeds")
	vAssert(back.Type == kind && back.Tag == tag, "C01: decoded type and tag equal the original")
	vAssert(vMsgEq(msg, back.Message), "C01: decoded message equals original field by field")
	vObserve("kind", uint8(kind))
	vObserve("len", len(got))
	vReach("c01.big")
}

func VerifC01_BigQuick()    { vC01Big([]int{255, 256, 65535}, []int{255, 256, 65536}, []int{16, 17, 300}) }
func VerifC01_BigThorough() {
	vC01Big([]int{127, 128, 255, 256, 257, 65534, 65535}, []int{255, 256, 65535, 65536}, []int{15, 16, 17, 255, 256})
}
