package p9p

// C09 (client link) - each client Session method emits exactly the T-message
// with the caller's arguments and unpacks the R-message into exactly its results.

import (
	"context"
	"io"
)

func vC09Client(sh *vShape) {
	op := ndChoice("op", 11)
	rt := &vRT{}
	c := &client{transport: rt, msize: 8192, version: DefaultVersion, ctx: vBG}
	// reply: 0 = right type, 1 = wrong type, 2 = transport error (incl. Rerror turned into an error)
	mode := ndChoice("reply", 3)
	etext := ndString("etext", 2)
	if mode == 2 {
		rt.err = MessageRerror{Ename: etext}
	}
	rkinds := []FcallType{Rauth, Rattach, Rclunk, Rremove, Rwalk, Rread, Rwrite, Ropen, Rcreate, Rstat, Rwstat}
	rk := rkinds[op]
	if mode == 1 {
		rk = rkinds[(op+1)%11]
		if op == 7 { // Ropen and Rcreate differ only in type: still a different type
			rk = Rcreate
		}
	}
	reply := ndMessage(rk, sh)
	rt.reply = reply
	fid := Fid(ndU32("a.fid"))
	fid2 := Fid(ndU32("a.fid2"))
	s1 := ndStr("a.s1", sh.strLens)
	s2 := ndStr("a.s2", sh.strLens)
	off := ndI64("a.off")
	var err error
	var sent Message
	check := func(want Message) {
		vAssert(len(rt.sent) == 1, "C09: exactly one request per call")
		sent = rt.sent[0]
		vAssert(vMsgEq(want, sent), "C09: the T-message carries exactly the caller's arguments")
	}
	okReply := mode == 0
	switch op {
	case 0:
		var q Qid
		q, err = c.Auth(vBG, fid, s1, s2)
		check(MessageTauth{Afid: fid, Uname: s1, Aname: s2})
		if okReply {
			vAssert(err == nil && vQidEq(q, reply.(MessageRauth).Qid), "C09: Auth returns the Rauth qid")
		}
	case 1:
		var q Qid
		q, err = c.Attach(vBG, fid, fid2, s1, s2)
		check(MessageTattach{Fid: fid, Afid: fid2, Uname: s1, Aname: s2})
		if okReply {
			vAssert(err == nil && vQidEq(q, reply.(MessageRattach).Qid), "C09: Attach returns the Rattach qid")
		}
	case 2:
		err = c.Clunk(vBG, fid)
		check(MessageTclunk{Fid: fid})
		if okReply {
			vAssert(err == nil, "C09: Clunk ok")
		}
	case 3:
		err = c.Remove(vBG, fid)
		check(MessageTremove{Fid: fid})
		if okReply {
			vAssert(err == nil, "C09: Remove ok")
		}
	case 4:
		n := vPick("a.nnames", append(append([]int(nil), sh.listLens...), 16, 17))
		names := make([]string, n)
		for i := range names {
			if n > 4 {
				names[i] = string([]byte{byte('a' + i)})
			} else {
				names[i] = ndStr("a.name", sh.strLens)
			}
		}
		var qs []Qid
		qs, err = c.Walk(vBG, fid, fid2, names...)
		if n > 16 {
			// more names than one Twalk carries: refusing is fine, sending fewer names is not
			if len(rt.sent) > 0 {
				vAssert(vMsgEq(MessageTwalk{Fid: fid, Newfid: fid2, Wnames: names}, rt.sent[0]), "C09: the T-message carries exactly the caller's arguments")
			} else {
				vAssert(err != nil, "C09: a walk that cannot be sent is an error")
			}
			vReach("c09.client.ok")
			return
		}
		check(MessageTwalk{Fid: fid, Newfid: fid2, Wnames: names})
		if okReply {
			vAssert(err == nil && vMsgEq(MessageRwalk{Qids: qs}, reply), "C09: Walk returns the Rwalk qids")
		}
	case 5:
		p := make([]byte, ndChoice("a.plen", 4))
		var n int
		n, err = c.Read(vBG, fid, p, off)
		check(MessageTread{Fid: fid, Offset: uint64(off), Count: uint32(len(p))})
		if okReply {
			data := reply.(MessageRread).Data
			want := len(data)
			if want > len(p) {
				want = len(p)
			}
			vAssert(n == want, "C09: Read returns min(len(p), len(data)) bytes")
			vAssertEqBytes(p[:n], data[:n], "C09: Read copies the Rread data")
			if len(data) == 0 {
				vAssert(err == io.EOF, "C09: empty Rread is EOF")
			} else {
				vAssert(err == nil, "C09: Read ok")
			}
		}
	case 6:
		p := ndBytes("a.data", ndChoice("a.dlen", 4))
		var n int
		n, err = c.Write(vBG, fid, p, off)
		check(MessageTwrite{Fid: fid, Offset: uint64(off), Data: p})
		if okReply {
			cnt := reply.(MessageRwrite).Count
			vAssert(n == int(cnt), "C09: Write returns the Rwrite count")
			vAssert(vImplies(int(cnt) >= len(p), err == nil), "C09: full write is not an error")
			vAssert(vImplies(int(cnt) < len(p), err == io.ErrShortWrite), "C09: short write is reported")
		}
	case 7:
		var q Qid
		var iou uint32
		mode8 := Flag(ndU8("a.mode"))
		q, iou, err = c.Open(vBG, fid, mode8)
		check(MessageTopen{Fid: fid, Mode: mode8})
		if okReply {
			r := reply.(MessageRopen)
			vAssert(err == nil && vAnd(vQidEq(q, r.Qid), iou == r.IOUnit), "C09: Open returns qid and iounit")
		}
	case 8:
		var q Qid
		var iou uint32
		mode8 := Flag(ndU8("a.mode"))
		perm := ndU32("a.perm")
		q, iou, err = c.Create(vBG, fid, s1, perm, mode8)
		check(MessageTcreate{Fid: fid, Name: s1, Perm: perm, Mode: mode8})
		if okReply {
			r := reply.(MessageRcreate)
			vAssert(err == nil && vAnd(vQidEq(q, r.Qid), iou == r.IOUnit), "C09: Create returns qid and iounit")
		}
	case 9:
		var d Dir
		d, err = c.Stat(vBG, fid)
		check(MessageTstat{Fid: fid})
		if okReply {
			vAssert(err == nil && vDirEq(d, reply.(MessageRstat).Stat), "C09: Stat returns the Rstat Dir")
		}
	case 10:
		d := ndDir("a.dir", sh)
		err = c.WStat(vBG, fid, d)
		check(MessageTwstat{Fid: fid, Stat: d})
		if okReply {
			vAssert(err == nil, "C09: WStat ok")
		}
	}
	switch mode {
	case 1:
		vAssert(err == ErrUnexpectedMsg, "C09: a reply of the wrong type surfaces as ErrUnexpectedMsg")
		vReach("c09.client.wrongtype")
	case 2:
		re, ok := err.(MessageRerror)
		vAssert(ok && vEqStr(re.Ename, etext), "C09: an error reply becomes the call's error with that text")
		vReach("c09.client.error")
	default:
		vReach("c09.client.ok")
	}
}

func VerifC09_ClientQuick()    { vC09Client(&vShapeTiny) }
func VerifC09_ClientThorough() { vC09Client(&vShapeQuick) }

// ---- end to end: CSession <-> ServeConn(SSession(recording session)) over an
// in-memory pipe; msize negotiated by the real handshake.
func vC09EndToEnd(ops []int) {
	ca, cb := newVPipe()
	rec := &vRecSession{msize: DefaultMSize, lazy: true, sh: &vShapeTiny, nmax: 3}
	ctx, cancel := context.WithCancel(vBG)
	defer cancel()
	srvDone := make(chan error, 1)
	go func() { srvDone <- ServeConn(ctx, cb, SSession(rec)) }()
	cs, err := CSession(ctx, ca)
	vAssert(err == nil, "C09: the handshake succeeds")
	if err != nil {
		return
	}
	msize, ver := cs.Version()
	vAssert(msize == DefaultMSize && ver == DefaultVersion, "C09: both ends agree on msize and version")
	op := ops[ndChoice("op", len(ops))]
	fid := Fid(ndU32("a.fid"))
	off := ndI64("a.off")
	ncalls := len(rec.calls)
	switch op {
	case 0:
		q, err := cs.Attach(vBG, fid, Fid(ndU32("a.afid")), "u", ndString("a.aname", 1))
		vAssert(err == nil && len(rec.calls) == ncalls+1, "C09: attach reaches the session once")
		c := rec.calls[ncalls]
		vAssert(c.op == "attach" && c.fid == fid, "C09: with the caller's arguments")
		vAssert(vQidEq(q, rec.rqid), "C09: and returns what the session returned")
	case 1:
		p := ndBytes("a.data", 2)
		n, err := cs.Write(vBG, fid, p, off)
		c := rec.calls[ncalls]
		vAssert(c.op == "write" && c.fid == fid && c.offset == off && vEqBytes(c.data, p), "C09: write delivers fid, offset (64 bits) and data")
		vAssert(n == rec.rn, "C09: write returns the session's count")
		_ = err
	case 2:
		p := make([]byte, 3)
		n, err := cs.Read(vBG, fid, p, off)
		c := rec.calls[ncalls]
		vAssert(c.op == "read" && c.fid == fid && c.offset == off && c.plen == 3, "C09: read delivers fid, offset and count")
		want := rec.rn
		if want > 3 {
			want = 3
		}
		vAssert(n == want && vEqBytes(p[:n], rec.rdata[:n]), "C09: read returns the session's bytes")
		_ = err
	case 3:
		rec.fail = true
		rec.rerr = MessageRerror{Ename: ndString("etext", 2)}
		err := cs.Clunk(vBG, fid)
		re, ok := err.(MessageRerror)
		vAssert(ok && vEqStr(re.Ename, rec.rerr.(MessageRerror).Ename), "C09: the session's error reaches the caller by its text")
	case 4:
		d, err := cs.Stat(vBG, fid)
		vAssert(err == nil && vDirEq(d, rec.rdir), "C09: stat returns the session's Dir (whole seconds)")
	}
	vReach("c09.e2e")
}

func VerifC09_EndToEndQuick()    { vC09EndToEnd([]int{1, 3}) }
func VerifC09_EndToEndThorough() { vC09EndToEnd([]int{0, 1, 2, 3, 4}) }

// ---- flow control: N callers issue one call each, concurrently, on one client
// session connected to a real server over an unbuffered in-memory pipe.  Every
// caller must obtain its own result and all of them must complete (a cycle
// client handle -> server reader -> serve loop -> server writer -> client
// reader -> client handle would show up as a deadlock).
type vFCSession struct{ Session }

func (vFCSession) Clunk(ctx context.Context, fid Fid) error {
	return MessageRerror{Ename: string([]byte{byte('a' + fid)})}
}
func (vFCSession) Version() (int, string) { return DefaultMSize, DefaultVersion }
func (vFCSession) Stop(err error) error   { return err }

func vC09FlowControl(n int) {
	ca, cb := newVPipe()
	ctx, cancel := context.WithCancel(vBG)
	defer cancel()
	go func() { ServeConn(ctx, cb, SSession(vFCSession{})) }()
	cs, err := CSession(ctx, ca)
	vAssert(err == nil, "C09: the handshake succeeds")
	if err != nil {
		return
	}
	done := make(chan int, n)
	for i := 0; i < n; i++ {
		go func(i int) {
			err := cs.Clunk(vBG, Fid(i))
			re, ok := err.(MessageRerror)
			vAssert(ok && re.Ename == string([]byte{byte('a' + i)}), "C09: each concurrent caller obtains its own result")
			done <- i
		}(i)
	}
	for i := 0; i < n; i++ {
		<-done
	}
	vReach("c09.flow")
}

func VerifC09_FlowControl5() { vC09FlowControl(5) }
func VerifC09_FlowControl6() { vC09FlowControl(6) }

// ---- two reads in flight on the real server-side handler ------------------------
// SSession(S) behind the real serve loop; S.Read fills the buffer it is given
// with a byte derived from the fid.  Both replies are taken off the channel
// first and inspected afterwards: each must carry exactly what S produced for
// its own call (a reply must not share storage with a later call).
type vFillSess struct{ Session }

func (vFillSess) Read(ctx context.Context, fid Fid, p []byte, offset int64) (int, error) {
	for i := range p {
		p[i] = byte('a' + fid)
	}
	return len(p), nil
}
func (vFillSess) Version() (int, string) { return DefaultMSize, DefaultVersion }
func (vFillSess) Stop(err error) error   { return err }

func VerifC09_TwoReads() {
	ch := newVPeerChannel()
	ctx, cancel := context.WithCancel(vBG)
	defer cancel()
	c := &conn{ctx: ctx, ch: ch, handler: SSession(vFillSess{}), closed: make(chan struct{})}
	go c.serve()
	n := uint32(1 + ndChoice("count", 2))
	ch.fromPeer <- &Fcall{Type: Tread, Tag: 1, Message: MessageTread{Fid: 1, Offset: ndU64("off1"), Count: n}}
	ch.fromPeer <- &Fcall{Type: Tread, Tag: 2, Message: MessageTread{Fid: 2, Offset: ndU64("off2"), Count: n}}
	r1 := <-ch.toPeer
	r2 := <-ch.toPeer
	for _, r := range []*Fcall{r1, r2} {
		rr, ok := r.Message.(MessageRread)
		vAssert(ok && len(rr.Data) == int(n), "C09: read returns the session's bytes")
		if ok {
			for _, b := range rr.Data {
				vAssert(b == byte('a')+byte(r.Tag), "C09: callers issuing calls concurrently each obtain their own results")
			}
		}
	}
	vReach("c09.tworeads")
}
