package p9p

// C09 (client link) - each client Session method emits exactly the T-message
// with the caller's arguments and unpacks the R-message into exactly its results.

import "io"

func vC09Client(sh *vShape) {
	op := ndChoice("op", 11)
	rt := &vRT{}
	c := &client{transport: rt, msize: 8192, version: DefaultVersion, ctx: vBG}
	// reply: 0 = right type, 1 = wrong type, 2 = transport error (incl. Rerror turned into an error)
	mode := ndChoice("reply", 3)
	etext := ndString("etext", 2)
	if mode == 2 {
		rt.err = MessageRerror{Ename: etext}
	}
	rkinds := []FcallType{Rauth, Rattach, Rclunk, Rremove, Rwalk, Rread, Rwrite, Ropen, Rcreate, Rstat, Rwstat}
	rk := rkinds[op]
	if mode == 1 {
		rk = rkinds[(op+1)%11]
		if op == 7 { // Ropen and Rcreate differ only in type: still a different type
			rk = Rcreate
		}
	}
	reply := ndMessage(rk, sh)
	rt.reply = reply
	fid := Fid(ndU32("a.fid"))
	fid2 := Fid(ndU32("a.fid2"))
	s1 := ndStr("a.s1", sh.strLens)
	s2 := ndStr("a.s2", sh.strLens)
	off := ndI64("a.off")
	var err error
	var sent Message
	check := func(want Message) {
		vAssert(len(rt.sent) == 1, "C09: exactly one request per call")
		sent = rt.sent[0]
		vAssert(vMsgEq(want, sent), "C09: the T-message carries exactly the caller's arguments")
	}
	okReply := mode == 0
	switch op {
	case 0:
		var q Qid
		q, err = c.Auth(vBG, fid, s1, s2)
		check(MessageTauth{Afid: fid, Uname: s1, Aname: s2})
		if okReply {
			vAssert(err == nil && vQidEq(q, reply.(MessageRauth).Qid), "C09: Auth returns the Rauth qid")
		}
	case 1:
		var q Qid
		q, err = c.Attach(vBG, fid, fid2, s1, s2)
		check(MessageTattach{Fid: fid, Afid: fid2, Uname: s1, Aname: s2})
		if okReply {
			vAssert(err == nil && vQidEq(q, reply.(MessageRattach).Qid), "C09: Attach returns the Rattach qid")
		}
	case 2:
		err = c.Clunk(vBG, fid)
		check(MessageTclunk{Fid: fid})
		if okReply {
			vAssert(err == nil, "C09: Clunk ok")
		}
	case 3:
		err = c.Remove(vBG, fid)
		check(MessageTremove{Fid: fid})
		if okReply {
			vAssert(err == nil, "C09: Remove ok")
		}
	case 4:
		n := vPick("a.nnames", sh.listLens)
		names := make([]string, n)
		for i := range names {
			names[i] = ndStr("a.name", sh.strLens)
		}
		var qs []Qid
		qs, err = c.Walk(vBG, fid, fid2, names...)
		check(MessageTwalk{Fid: fid, Newfid: fid2, Wnames: names})
		if okReply {
			vAssert(err == nil && vMsgEq(MessageRwalk{Qids: qs}, reply), "C09: Walk returns the Rwalk qids")
		}
	case 5:
		p := make([]byte, ndChoice("a.plen", 4))
		var n int
		n, err = c.Read(vBG, fid, p, off)
		check(MessageTread{Fid: fid, Offset: uint64(off), Count: uint32(len(p))})
		if okReply {
			data := reply.(MessageRread).Data
			want := len(data)
			if want > len(p) {
				want = len(p)
			}
			vAssert(n == want, "C09: Read returns min(len(p), len(data)) bytes")
			vAssertEqBytes(p[:n], data[:n], "C09: Read copies the Rread data")
			if len(data) == 0 {
				vAssert(err == io.EOF, "C09: empty Rread is EOF")
			} else {
				vAssert(err == nil, "C09: Read ok")
			}
		}
	case 6:
		p := ndBytes("a.data", ndChoice("a.dlen", 4))
		var n int
		n, err = c.Write(vBG, fid, p, off)
		check(MessageTwrite{Fid: fid, Offset: uint64(off), Data: p})
		if okReply {
			cnt := reply.(MessageRwrite).Count
			vAssert(n == int(cnt), "C09: Write returns the Rwrite count")
			vAssert(vImplies(int(cnt) >= len(p), err == nil), "C09: full write is not an error")
			vAssert(vImplies(int(cnt) < len(p), err == io.ErrShortWrite), "C09: short write is reported")
		}
	case 7:
		var q Qid
		var iou uint32
		mode8 := Flag(ndU8("a.mode"))
		q, iou, err = c.Open(vBG, fid, mode8)
		check(MessageTopen{Fid: fid, Mode: mode8})
		if okReply {
			r := reply.(MessageRopen)
			vAssert(err == nil && vAnd(vQidEq(q, r.Qid), iou == r.IOUnit), "C09: Open returns qid and iounit")
		}
	case 8:
		var q Qid
		var iou uint32
		mode8 := Flag(ndU8("a.mode"))
		perm := ndU32("a.perm")
		q, iou, err = c.Create(vBG, fid, s1, perm, mode8)
		check(MessageTcreate{Fid: fid, Name: s1, Perm: perm, Mode: mode8})
		if okReply {
			r := reply.(MessageRcreate)
			vAssert(err == nil && vAnd(vQidEq(q, r.Qid), iou == r.IOUnit), "C09: Create returns qid and iounit")
		}
	case 9:
		var d Dir
		d, err = c.Stat(vBG, fid)
		check(MessageTstat{Fid: fid})
		if okReply {
			vAssert(err == nil && vDirEq(d, reply.(MessageRstat).Stat), "C09: Stat returns the Rstat Dir")
		}
	case 10:
		d := ndDir("a.dir", sh)
		err = c.WStat(vBG, fid, d)
		check(MessageTwstat{Fid: fid, Stat: d})
		if okReply {
			vAssert(err == nil, "C09: WStat ok")
		}
	}
	switch mode {
	case 1:
		vAssert(err == ErrUnexpectedMsg, "C09: a reply of the wrong type surfaces as ErrUnexpectedMsg")
		vReach("c09.client.wrongtype")
	case 2:
		re, ok := err.(MessageRerror)
		vAssert(ok && vEqStr(re.Ename, etext), "C09: an error reply becomes the call's error with that text")
		vReach("c09.client.error")
	default:
		vReach("c09.client.ok")
	}
}

func VerifC09_ClientQuick()    { vC09Client(&vShapeTiny) }
func VerifC09_ClientThorough() { vC09Client(&vShapeQuick) }
