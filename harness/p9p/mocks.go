package p9p

// Mock objects used by the harnesses (DESIGN.md Appendix B.6).  They are
// ordinary Go: interpreted by the engine like the code under test, compiled
// natively for replay.

import (
	"context"
	"errors"
	"io"
	"net"
	"time"
)

// vCaptureConn records everything written; reads come from a script.
type vCaptureConn struct {
	out     []byte
	writes  int
	in      []byte // bytes still to be delivered
	chunk   int    // max bytes per Read (0 = unlimited)
	readErr error  // returned once `in` is exhausted (default io.EOF)
	wErr    error  // returned by Write when set
	reads   int
}

func (c *vCaptureConn) Read(p []byte) (int, error) {
	c.reads++
	if len(c.in) == 0 {
		if c.readErr != nil {
			return 0, c.readErr
		}
		return 0, io.EOF
	}
	n := len(p)
	if n > len(c.in) {
		n = len(c.in)
	}
	if c.chunk > 0 && n > c.chunk {
		n = c.chunk
	}
	copy(p, c.in[:n])
	c.in = c.in[n:]
	return n, nil
}

func (c *vCaptureConn) Write(p []byte) (int, error) {
	if c.wErr != nil {
		return 0, c.wErr
	}
	c.writes++
	c.out = append(c.out, p...)
	return len(p), nil
}

func (c *vCaptureConn) Close() error                       { return nil }
func (c *vCaptureConn) LocalAddr() net.Addr                { return nil }
func (c *vCaptureConn) RemoteAddr() net.Addr               { return nil }
func (c *vCaptureConn) SetDeadline(t time.Time) error      { return nil }
func (c *vCaptureConn) SetReadDeadline(t time.Time) error  { return nil }
func (c *vCaptureConn) SetWriteDeadline(t time.Time) error { return nil }

var errVMock = errors.New("mock failure")

func vFrame(body []byte) []byte {
	return append(le32(nil, uint32(len(body)+4)), body...)
}

func vLE32(b []byte) uint32 {
	return uint32(b[0]) | uint32(b[1])<<8 | uint32(b[2])<<16 | uint32(b[3])<<24
}

var vBG = context.Background()

// vSplitConn delivers its stream in two Read results split at `split`.
type vSplitConn struct {
	vCaptureConn
	in    []byte
	split int
	pos   int
}

func (c *vSplitConn) Read(p []byte) (int, error) {
	if c.pos >= len(c.in) {
		return 0, io.EOF
	}
	end := len(c.in)
	if c.pos < c.split {
		end = c.split
	}
	n := copy(p, c.in[c.pos:end])
	c.pos += n
	return n, nil
}

// vScriptChannel is a sequential mock of the Channel interface: reads come
// from a script, writes are recorded.  msize may be symbolic.
type vScriptChannel struct {
	msize   int
	script  []*Fcall
	readErr error
	written []*Fcall
	writeErr error
	setCalls int
}

func (c *vScriptChannel) ReadFcall(ctx context.Context, fc *Fcall) error {
	if len(c.script) == 0 {
		if c.readErr != nil {
			return c.readErr
		}
		return io.EOF
	}
	*fc = *c.script[0]
	c.script = c.script[1:]
	return nil
}

func (c *vScriptChannel) WriteFcall(ctx context.Context, fc *Fcall) error {
	if c.writeErr != nil {
		return c.writeErr
	}
	cp := *fc
	c.written = append(c.written, &cp)
	return nil
}

func (c *vScriptChannel) MSize() int { return c.msize }
func (c *vScriptChannel) SetMSize(m int) {
	c.setCalls++
	c.msize = m
}

// vRecHandler records dispatches.
type vRecHandler struct {
	handled int
	stopped int
}

func (h *vRecHandler) Handle(ctx context.Context, msg Message) (Message, error) {
	h.handled++
	return nil, errVMock
}

func (h *vRecHandler) Stop(err error) error {
	h.stopped++
	return err
}
