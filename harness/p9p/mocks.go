package p9p

// Mock objects used by the harnesses (DESIGN.md Appendix B.6).  They are
// ordinary Go: interpreted by the engine like the code under test, compiled
// natively for replay.

import (
	"context"
	"errors"
	"io"
	"net"
	"time"
)

// vCaptureConn records everything written; reads come from a script.
type vCaptureConn struct {
	out     []byte
	writes  int
	in      []byte // bytes still to be delivered
	chunk   int    // max bytes per Read (0 = unlimited)
	readErr error  // returned once `in` is exhausted (default io.EOF)
	wErr    error  // returned by Write when set
	reads   int
}

func (c *vCaptureConn) Read(p []byte) (int, error) {
	c.reads++
	if len(c.in) == 0 {
		if c.readErr != nil {
			return 0, c.readErr
		}
		return 0, io.EOF
	}
	n := len(p)
	if n > len(c.in) {
		n = len(c.in)
	}
	if c.chunk > 0 && n > c.chunk {
		n = c.chunk
	}
	copy(p, c.in[:n])
	c.in = c.in[n:]
	return n, nil
}

func (c *vCaptureConn) Write(p []byte) (int, error) {
	if c.wErr != nil {
		return 0, c.wErr
	}
	c.writes++
	c.out = append(c.out, p...)
	return len(p), nil
}

func (c *vCaptureConn) Close() error                       { return nil }
func (c *vCaptureConn) LocalAddr() net.Addr                { return nil }
func (c *vCaptureConn) RemoteAddr() net.Addr               { return nil }
func (c *vCaptureConn) SetDeadline(t time.Time) error      { return nil }
func (c *vCaptureConn) SetReadDeadline(t time.Time) error  { return nil }
func (c *vCaptureConn) SetWriteDeadline(t time.Time) error { return nil }

var errVMock = errors.New("mock failure")

func vFrame(body []byte) []byte {
	return append(le32(nil, uint32(len(body)+4)), body...)
}

func vLE32(b []byte) uint32 {
	return uint32(b[0]) | uint32(b[1])<<8 | uint32(b[2])<<16 | uint32(b[3])<<24
}

var vBG = context.Background()

// vSplitConn delivers its stream in two Read results split at `split`.
type vSplitConn struct {
	vCaptureConn
	in    []byte
	split int
	pos   int
}

func (c *vSplitConn) Read(p []byte) (int, error) {
	if c.pos >= len(c.in) {
		return 0, io.EOF
	}
	end := len(c.in)
	if c.pos < c.split {
		end = c.split
	}
	n := copy(p, c.in[c.pos:end])
	c.pos += n
	return n, nil
}

// vScriptChannel is a sequential mock of the Channel interface: reads come
// from a script, writes are recorded.  msize may be symbolic.
type vScriptChannel struct {
	msize   int
	script  []*Fcall
	readErr error
	written []*Fcall
	writeErr error
	setCalls int
}

func (c *vScriptChannel) ReadFcall(ctx context.Context, fc *Fcall) error {
	if len(c.script) == 0 {
		if c.readErr != nil {
			return c.readErr
		}
		return io.EOF
	}
	*fc = *c.script[0]
	c.script = c.script[1:]
	return nil
}

func (c *vScriptChannel) WriteFcall(ctx context.Context, fc *Fcall) error {
	if c.writeErr != nil {
		return c.writeErr
	}
	cp := *fc
	c.written = append(c.written, &cp)
	return nil
}

func (c *vScriptChannel) MSize() int { return c.msize }
func (c *vScriptChannel) SetMSize(m int) {
	c.setCalls++
	c.msize = m
}

// vRecHandler records dispatches.
type vRecHandler struct {
	handled int
	stopped int
}

func (h *vRecHandler) Handle(ctx context.Context, msg Message) (Message, error) {
	h.handled++
	return nil, errVMock
}

func (h *vRecHandler) Stop(err error) error {
	h.stopped++
	return err
}

// vRecSession records the Session calls it receives and answers with
// nondeterministic (symbolic) results.
type vRecCall struct {
	op     string
	fid    Fid
	afid   Fid // afid / newfid
	s1, s2 string
	names  []string
	perm   uint32
	mode   Flag
	offset int64
	plen   int
	data   []byte
	dir    Dir
}

type vRecSession struct {
	msize  int
	calls  []vRecCall
	fail   bool   // every call returns rerr
	rerr   error
	rqid   Qid
	rqids  []Qid
	riou   uint32
	rn     int
	rdata  []byte
	rdir   Dir
	stops  int
	lazy   bool
	sh     *vShape
	nmax   int
}

// gen draws the results a call needs on demand (keeps the choice space small)
func (s *vRecSession) gen(what string) {
	if !s.lazy {
		return
	}
	switch what {
	case "qid":
		s.rqid = ndQid("rqid")
	case "qids":
		nq := ndChoice("nrqids", 3)
		s.rqids = nil
		for i := 0; i < nq; i++ {
			s.rqids = append(s.rqids, ndQid("rq"))
		}
	case "iou":
		s.riou = ndU32("riou")
	case "dir":
		s.rdir = ndDir("rdir", s.sh)
	case "n":
		s.rn = ndChoice("rn", s.nmax+1)
	case "data":
		s.rdata = ndBytes("rdata", s.nmax)
	}
}

func (s *vRecSession) rec(c vRecCall) error {
	s.calls = append(s.calls, c)
	if s.fail {
		return s.rerr
	}
	return nil
}

func (s *vRecSession) Auth(ctx context.Context, afid Fid, uname, aname string) (Qid, error) {
	s.gen("qid")
	return s.rqid, s.rec(vRecCall{op: "auth", afid: afid, s1: uname, s2: aname})
}
func (s *vRecSession) Attach(ctx context.Context, fid, afid Fid, uname, aname string) (Qid, error) {
	s.gen("qid")
	return s.rqid, s.rec(vRecCall{op: "attach", fid: fid, afid: afid, s1: uname, s2: aname})
}
func (s *vRecSession) Clunk(ctx context.Context, fid Fid) error {
	return s.rec(vRecCall{op: "clunk", fid: fid})
}
func (s *vRecSession) Remove(ctx context.Context, fid Fid) error {
	return s.rec(vRecCall{op: "remove", fid: fid})
}
func (s *vRecSession) Walk(ctx context.Context, fid Fid, newfid Fid, names ...string) ([]Qid, error) {
	s.gen("qids")
	return s.rqids, s.rec(vRecCall{op: "walk", fid: fid, afid: newfid, names: names})
}
func (s *vRecSession) Read(ctx context.Context, fid Fid, p []byte, offset int64) (int, error) {
	s.gen("n")
	s.gen("data")
	err := s.rec(vRecCall{op: "read", fid: fid, plen: len(p), offset: offset})
	n := s.rn
	if n > len(p) {
		n = len(p)
	}
	copy(p, s.rdata[:n])
	return n, err
}
func (s *vRecSession) Write(ctx context.Context, fid Fid, p []byte, offset int64) (int, error) {
	s.gen("n")
	return s.rn, s.rec(vRecCall{op: "write", fid: fid, data: append([]byte(nil), p...), offset: offset})
}
func (s *vRecSession) Open(ctx context.Context, fid Fid, mode Flag) (Qid, uint32, error) {
	s.gen("qid")
	s.gen("iou")
	return s.rqid, s.riou, s.rec(vRecCall{op: "open", fid: fid, mode: mode})
}
func (s *vRecSession) Create(ctx context.Context, parent Fid, name string, perm uint32, mode Flag) (Qid, uint32, error) {
	s.gen("qid")
	s.gen("iou")
	return s.rqid, s.riou, s.rec(vRecCall{op: "create", fid: parent, s1: name, perm: perm, mode: mode})
}
func (s *vRecSession) Stat(ctx context.Context, fid Fid) (Dir, error) {
	s.gen("dir")
	return s.rdir, s.rec(vRecCall{op: "stat", fid: fid})
}
func (s *vRecSession) WStat(ctx context.Context, fid Fid, dir Dir) error {
	return s.rec(vRecCall{op: "wstat", fid: fid, dir: dir})
}
func (s *vRecSession) Version() (int, string) { return s.msize, DefaultVersion }
func (s *vRecSession) Stop(err error) error   { s.stops++; return err }

// vRT is a mock roundTripper: records the request, returns a scripted reply.
type vRT struct {
	sent  []Message
	reply Message
	err   error
}

func (t *vRT) send(ctx context.Context, msg Message) (Message, error) {
	t.sent = append(t.sent, msg)
	if t.err != nil {
		return nil, t.err
	}
	return t.reply, nil
}

// vPeerChannel is a Channel whose other end is the harness (the "peer"):
// frames written by the code under test arrive on toPeer, frames and fatal
// errors for it are sent on fromPeer / errs.
type vPeerChannel struct {
	toPeer   chan *Fcall
	fromPeer chan *Fcall
	errs     chan error
	msize    int
	werr     error // when non-nil WriteFcall fails with it (set by the harness before the write)
	wfailAt  int   // fail the n-th write (1-based) when > 0
	nwrites  int
	werrs    chan error // when non-nil: an error sent here fails the write that is blocked at that moment
}

func newVPeerChannel() *vPeerChannel {
	return &vPeerChannel{toPeer: make(chan *Fcall), fromPeer: make(chan *Fcall), errs: make(chan error), msize: 8192}
}

func (c *vPeerChannel) ReadFcall(ctx context.Context, fc *Fcall) error {
	select {
	case f := <-c.fromPeer:
		*fc = *f
		return nil
	case err := <-c.errs:
		return err
	case <-ctx.Done():
		return ctx.Err()
	}
}

func (c *vPeerChannel) WriteFcall(ctx context.Context, fc *Fcall) error {
	select {
	case <-ctx.Done():
		return ctx.Err()
	default:
	}
	c.nwrites++
	if c.wfailAt > 0 && c.nwrites == c.wfailAt {
		return errVMock
	}
	cp := *fc
	select {
	case c.toPeer <- &cp:
		return nil
	case err := <-c.werrs:
		return err
	case <-ctx.Done():
		return ctx.Err()
	}
}

func (c *vPeerChannel) MSize() int     { return c.msize }
func (c *vPeerChannel) SetMSize(m int) { c.msize = m }

// vPipeEnd is one end of an in-memory, unbuffered, full-duplex net.Conn built
// from interpreted channels (each Write is delivered as one chunk).
type vPipeEnd struct {
	rd     chan []byte
	wr     chan []byte
	closed chan struct{}
	peerClosed chan struct{}
	rest   []byte
}

func newVPipe() (*vPipeEnd, *vPipeEnd) {
	ab := make(chan []byte)
	ba := make(chan []byte)
	ca := make(chan struct{})
	cb := make(chan struct{})
	a := &vPipeEnd{rd: ba, wr: ab, closed: ca, peerClosed: cb}
	b := &vPipeEnd{rd: ab, wr: ba, closed: cb, peerClosed: ca}
	return a, b
}

func (p *vPipeEnd) Read(b []byte) (int, error) {
	if len(p.rest) == 0 {
		select {
		case chunk := <-p.rd:
			p.rest = chunk
		case <-p.closed:
			return 0, io.ErrClosedPipe
		case <-p.peerClosed:
			return 0, io.EOF
		}
	}
	n := copy(b, p.rest)
	p.rest = p.rest[n:]
	return n, nil
}

func (p *vPipeEnd) Write(b []byte) (int, error) {
	cp := append([]byte(nil), b...)
	select {
	case p.wr <- cp:
		return len(b), nil
	case <-p.closed:
		return 0, io.ErrClosedPipe
	case <-p.peerClosed:
		return 0, io.ErrClosedPipe
	}
}

func (p *vPipeEnd) Close() error {
	select {
	case <-p.closed:
	default:
		close(p.closed)
	}
	return nil
}
func (p *vPipeEnd) LocalAddr() net.Addr                { return nil }
func (p *vPipeEnd) RemoteAddr() net.Addr               { return nil }
func (p *vPipeEnd) SetDeadline(t time.Time) error      { return nil }
func (p *vPipeEnd) SetReadDeadline(t time.Time) error  { return nil }
func (p *vPipeEnd) SetWriteDeadline(t time.Time) error { return nil }
