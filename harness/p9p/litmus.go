package p9p

import "sync"

// Litmus harnesses: small programs with known outcomes that validate the
// engine itself (DESIGN.md section 4).

func VerifLitmusArith() {
	x := ndU32("x")
	y := ndU32("y")
	vAssume(x < 100)
	if x+y < x {
		vReach("wrap")
	} else {
		vReach("nowrap")
	}
	z := uint64(x) * 3
	vAssert(z/3 == uint64(x), "mul-div")
	vObserve("x", x)
	vObserve("sum", x+y)
	var b [4]byte
	b[0] = byte(y)
	b[1] = byte(y >> 8)
	b[2] = byte(y >> 16)
	b[3] = byte(y >> 24)
	back := uint32(b[0]) | uint32(b[1])<<8 | uint32(b[2])<<16 | uint32(b[3])<<24
	vAssert(back == y, "le-roundtrip")
	s := int32(y)
	if s < 0 {
		vReach("neg")
		vAssert(uint32(-s) == -y, "neg")
	}
	vObserve("s", s)
}

func VerifLitmusFail() {
	x := ndU16("x")
	vAssert(x != 0xFFFE, "x is never fffe")
}

func VerifLitmusForks() {
	n := 0
	for i := 0; i < 10; i++ {
		if ndBool("b") {
			n++
		}
	}
	vObserve("n", n)
}

// ---- scheduler litmus tests: the set of observable outcomes must not depend
// on the sleep-set reduction (symgo run -outcomes, with and without -sleep).

func VerifLitmusSched1() {
	c := make(chan int)
	go func() { c <- 1 }()
	go func() { c <- 2 }()
	a := <-c
	b := <-c
	vObserve("order", a*10+b)
}

func VerifLitmusSched2() {
	var mu sync.Mutex
	x := 0
	done := make(chan bool)
	for i := 0; i < 2; i++ {
		go func(i int) {
			mu.Lock()
			t := x
			mu.Unlock()
			mu.Lock()
			x = t + i + 1
			mu.Unlock()
			done <- true
		}(i)
	}
	<-done
	<-done
	vObserve("x", x)
}

func VerifLitmusSched3() {
	a := make(chan int, 1)
	b := make(chan int, 1)
	a <- 1
	b <- 2
	r := 0
	select {
	case v := <-a:
		r = v
	case v := <-b:
		r = v
	}
	vObserve("r", r)
}

func VerifLitmusSched4() {
	// producer/consumer with close; consumer uses select with default
	c := make(chan int, 2)
	stop := make(chan struct{})
	res := make(chan int)
	go func() {
		c <- 1
		c <- 2
		close(stop)
	}()
	go func() {
		sum := 0
		for {
			select {
			case v := <-c:
				sum += v
			case <-stop:
				select {
				case v := <-c:
					sum += v * 10
				default:
				}
				res <- sum
				return
			}
		}
	}()
	vObserve("sum", <-res)
}

func VerifLitmusSched5() {
	// three goroutines, two channels, a shared map protected by a mutex
	var mu sync.Mutex
	order := 0
	a := make(chan int)
	b := make(chan int)
	done := make(chan bool, 3)
	go func() { mu.Lock(); order = order*10 + 1; mu.Unlock(); a <- 1; done <- true }()
	go func() { v := <-a; mu.Lock(); order = order*10 + 2 + v - 1; mu.Unlock(); b <- 1; done <- true }()
	go func() { mu.Lock(); order = order*10 + 3; mu.Unlock(); <-b; done <- true }()
	<-done
	<-done
	<-done
	vObserve("order", order)
}

func VerifLitmusDeadlock() {
	var mu sync.Mutex
	mu.Lock()
	mu.Lock()
}

func VerifLitmusRace() {
	x := 0
	done := make(chan bool)
	go func() { x = 1; done <- true }()
	x = 2
	<-done
	vObserve("x", x)
}
