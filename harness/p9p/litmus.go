package p9p

// Litmus harnesses: small programs with known outcomes that validate the
// engine itself (DESIGN.md section 4).

func VerifLitmusArith() {
	x := ndU32("x")
	y := ndU32("y")
	vAssume(x < 100)
	if x+y < x {
		vReach("wrap")
	} else {
		vReach("nowrap")
	}
	z := uint64(x) * 3
	vAssert(z/3 == uint64(x), "mul-div")
	vObserve("x", x)
	vObserve("sum", x+y)
	var b [4]byte
	b[0] = byte(y)
	b[1] = byte(y >> 8)
	b[2] = byte(y >> 16)
	b[3] = byte(y >> 24)
	back := uint32(b[0]) | uint32(b[1])<<8 | uint32(b[2])<<16 | uint32(b[3])<<24
	vAssert(back == y, "le-roundtrip")
	s := int32(y)
	if s < 0 {
		vReach("neg")
		vAssert(uint32(-s) == -y, "neg")
	}
	vObserve("s", s)
}

func VerifLitmusFail() {
	x := ndU16("x")
	vAssert(x != 0xFFFE, "x is never fffe")
}

func VerifLitmusForks() {
	n := 0
	for i := 0; i < 10; i++ {
		if ndBool("b") {
			n++
		}
	}
	vObserve("n", n)
}
