package p9p

// C11 - server shutdown is prompt, complete and crash-free at any moment.

import (
	"context"
	"io"
)

// (a) the serve loop with scripted handlers (which return once cancelled):
// a fault strikes with 0..2 requests in flight, some of them completing.
func vC11Shutdown(k int) {
	s := newVSrv(k)
	fault := ndChoice("fault", 4) // 0 read error, 1 peer close (EOF), 2 write error, 3 context cancel
	nreq := ndChoice("nreq", k+1)
	for i := 0; i < nreq; i++ {
		s.ch.fromPeer <- vReq(i, Tag(i+1), uint64(i))
		<-s.h.started
	}
	rel := ndChoice("completing", nreq+1)
	if fault == 2 {
		if rel == 0 {
			// a write error needs a write: nothing to explore here
			vReach("c11.nowrite")
			return
		}
		s.ch.wfailAt = 1 + ndChoice("wfailAt", rel)
	}
	// the peer keeps reading replies (a peer that stops reading is another fault)
	go func() {
		for {
			<-s.ch.toPeer
		}
	}()
	for i := 0; i < rel; i++ {
		s.h.release[i] <- vResFor(0, uint32(i), "")
	}
	switch fault {
	case 0:
		s.ch.errs <- errVMock
	case 1:
		s.ch.errs <- io.EOF
	case 3:
		s.cancel()
	}
	err := <-s.served // a serve loop that never returns is reported as a deadlock
	vAssert(err != nil, "C11: serving returns the terminal error")
	for i := rel; i < nreq; i++ {
		vAssert(s.h.ctxs[i].Err() != nil, "C11: every in-flight handler's context is cancelled when serving returns")
	}
	vDrain()
	for i := 0; i < nreq; i++ {
		vAssert(s.h.returned[i], "C11: handlers that honour cancellation have returned")
	}
	vReach("c11.shutdown")
}

func VerifC11_ShutdownQuick()    { vC11Shutdown(2) }
func VerifC11_ShutdownThorough() { vC11Shutdown(3) }

// (b) shutdown with the real session behind the handler: after serving returns
// Stop runs (as ServeConn does), and once in-flight handlers have returned no
// fid remains bound and every entry was released exactly once.
type vBlockFS struct {
	vStubFS
	gate chan struct{}
}

func (fs *vBlockFS) Attach(ctx context.Context, uname, aname string, af AuthFile) (Dirent, error) {
	// blocks until released or cancelled; a cancelled call still returns
	// promptly, and (as any real call racing with cancellation) may succeed
	select {
	case <-fs.gate:
	case <-ctx.Done():
		if ndChoice("attach.cancelled.fails", 2) == 1 {
			return nil, ctx.Err()
		}
	}
	return fs.newEnt(true), nil
}

func VerifC11_SessionQuick()    { vC11Session(1) }
func VerifC11_SessionThorough() { vC11Session(2) }

func vC11Session(maxReq int) {
	fs := &vBlockFS{gate: make(chan struct{})}
	fs.noFail = true
	sess := SFileSys(fs).(*session)
	h := SSession(sess)
	ch := newVPeerChannel()
	ctx, cancel := context.WithCancel(vBG)
	defer cancel()
	c := &conn{ctx: ctx, ch: ch, handler: h, closed: make(chan struct{})}
	served := make(chan error, 1)
	go func() { served <- c.serve() }()
	go func() {
		for {
			<-ch.toPeer
		}
	}()
	// one attach (two in the thorough tier) is in flight when the fault strikes
	nreq := 1 + ndChoice("nreq", maxReq)
	ch.fromPeer <- &Fcall{Type: Tattach, Tag: 1, Message: MessageTattach{Fid: 1, Afid: NOFID}}
	if nreq == 2 {
		ch.fromPeer <- &Fcall{Type: Tattach, Tag: 2, Message: MessageTattach{Fid: 2, Afid: NOFID}}
	}
	if ndChoice("first.completes", 2) == 1 {
		fs.gate <- struct{}{}
	} else if ndChoice("first.flushed", 2) == 1 {
		// the client gives up on the first attach: its tag leaves the table while
		// its handler may still be inside the session
		ch.fromPeer <- &Fcall{Type: Tflush, Tag: 9, Message: MessageTflush{Oldtag: 1}}
	}
	switch ndChoice("fault", 2) {
	case 0:
		ch.errs <- io.EOF
	case 1:
		cancel()
	}
	err := <-served
	stopErr := h.Stop(err) // what ServeConn does with serve's result
	vAssert(stopErr != nil, "C11: the stop callback receives the terminal error")
	vDrain() // in-flight handlers have returned
	nb := 0
	sess.refs.Range(func(k, v interface{}) bool {
		if v.(*SFid).Ent != nil {
			nb++
		}
		return true
	})
	vAssert(nb == 0, "C11: after stop, and once in-flight handlers have returned, no fid remains bound")
	for _, e := range fs.ents {
		vAssert(e.released == 1, "C11: every entry the session held has been released exactly once")
	}
	vAssert(fs.viol == "", "C11: no entry is used after release: "+fs.viol)
	vReach("c11.session")
}

// larger configurations, explored delay-bounded (see check spec)
func VerifC11_Shutdown4() { vC11Shutdown(4) }
func VerifC11_Session3()  { vC11Session(3) }

// (c) a fault after a flush and a reuse of the flushed tag: A (tag t, handler
// ignores cancellation) is flushed, B reuses t and is in flight, A's handler
// returns late at an explored moment, then the fault strikes.  Serving must
// still return, with B's context cancelled.
func VerifC11_FlushThenFault() {
	s := newVSrv(2)
	fault := ndChoice("fault", 3) // 0 read error, 1 peer close (EOF), 2 context cancel
	t, f := Tag(1), Tag(2)
	s.h.honour[0] = false
	s.ch.fromPeer <- vReq(0, t, 0)
	<-s.h.started
	s.ch.fromPeer <- &Fcall{Type: Tflush, Tag: f, Message: MessageTflush{Oldtag: t}}
	r := <-s.ch.toPeer
	vAssert(r.Tag == f, "C07: the flush is acknowledged")
	s.ch.fromPeer <- vReq(1, t, 1)
	<-s.h.started
	go func() {
		for {
			<-s.ch.toPeer
		}
	}()
	lateA := ndChoice("lateA", 2) == 1
	if lateA {
		s.h.release[0] <- vResFor(0, 7, "")
		vDrain()
	}
	switch fault {
	case 0:
		s.ch.errs <- errVMock
	case 1:
		s.ch.errs <- io.EOF
	case 2:
		s.cancel()
	}
	if !lateA {
		// the handler that ignores cancellation returns once serving is shutting down
		s.h.release[0] <- vResFor(0, 7, "")
	}
	err := <-s.served // a serve loop that never returns is reported as a deadlock
	vAssert(err != nil, "C11: serving returns the terminal error")
	vAssert(s.h.ctxs[1].Err() != nil, "C11: every in-flight handler's context is cancelled when serving returns")
	vDrain()
	vAssert(s.h.returned[1], "C11: handlers that honour cancellation have returned")
	vReach("c11.flushfault")
}
