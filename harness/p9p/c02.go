package p9p

// C02 - no frame written to a connection ever exceeds msize.

import (
	"context"
	"time"
)

func vC02Msize() int {
	m := ndU32("msize")
	vAssume(vAnd(m >= 24, m <= 1<<20))
	return int(m)
}

// newChannel with a small buffer; msize is then set directly so that it stays
// symbolic over the whole range [24, 2^20] (DESIGN C02 "In-pkg").
func vC02Chan(conn *vCaptureConn, msize int) *channel {
	ch := newChannel(conn, codec9p{}, 128)
	ch.msize = msize
	return ch
}

// every kind except Twrite/Tread: unmodified or not at all
func vC02Default(sh *vShape) {
	var kinds []FcallType
	for _, k := range vAllKinds {
		if k != Twrite && k != Tread {
			kinds = append(kinds, k)
		}
	}
	kind := kinds[ndChoice("kind", len(kinds))]
	tag := Tag(ndU16("tag"))
	msg := ndMessage(kind, sh)
	msize := vC02Msize()
	conn := &vCaptureConn{}
	ch := vC02Chan(conn, msize)
	want := refEncode(kind, tag, msg)
	err := ch.WriteFcall(vBG, &Fcall{Type: kind, Tag: tag, Message: msg})
	if 4+len(want) <= msize {
		vAssert(err == nil, "C02: a message that fits is sent")
		vAssertEqBytes(conn.out, vFrame(want), "C02: exactly one unmodified frame")
		vReach("c02.default.fits")
	} else {
		vAssert(err != nil, "C02: too long => error")
		vAssert(Overflow(err) == 4+len(want)-msize, "C02: error reports the excess")
		vAssert(len(conn.out) == 0, "C02: too long => nothing emitted")
		vReach("c02.default.overflow")
	}
	vObserve("out", conn.out)
}

func VerifC02_DefaultQuick()    { vC02Default(&vShapeTiny) }
func VerifC02_DefaultThorough() { vC02Default(&vShapeQuick) }

func vC02Twrite(maxData int) {
	tag := Tag(ndU16("tag"))
	n := ndChoice("datalen", maxData+1)
	data := ndBytes("data", n)
	orig := append([]byte(nil), data...)
	msg := MessageTwrite{Fid: Fid(ndU32("fid")), Offset: ndU64("offset"), Data: data}
	msize := vC02Msize()
	conn := &vCaptureConn{}
	ch := vC02Chan(conn, msize)
	fc := &Fcall{Type: Twrite, Tag: tag, Message: msg}
	err := ch.WriteFcall(vBG, fc)
	vAssert(err == nil, "C02: Twrite with msize >= 24 is always sent (possibly shortened)")
	vAssertEqBytes(data, orig, "C02: caller's buffer is never modified")
	out := conn.out
	vAssert(len(out) >= 23, "C02: Twrite frame has its header")
	vAssert(int(vLE32(out)) == len(out), "C02: length prefix equals total length")
	vAssert(len(out) <= msize, "C02: frame within msize")
	full := 23 + n
	if full <= msize {
		vAssertEqBytes(out, vFrame(refEncode(Twrite, tag, msg)), "C02: fitting Twrite unmodified")
		vReach("c02.twrite.fits")
	} else {
		vAssert(len(out) == msize, "C02: shortened Twrite frame is exactly msize")
		keep := len(out) - 23
		short := MessageTwrite{Fid: msg.Fid, Offset: msg.Offset, Data: orig[:keep]}
		vAssertEqBytes(out, vFrame(refEncode(Twrite, tag, short)), "C02: shortened Twrite carries a prefix of the data")
		vReach("c02.twrite.short")
	}
	vObserve("outlen", len(out))
}

func VerifC02_TwriteQuick()    { vC02Twrite(6) }
func VerifC02_TwriteThorough() { vC02Twrite(16) }

func VerifC02_Tread() {
	tag := Tag(ndU16("tag"))
	count := ndU32("count")
	msg := MessageTread{Fid: Fid(ndU32("fid")), Offset: ndU64("offset"), Count: count}
	m := ndU32("msize")
	vAssume(vAnd(m >= 24, m <= 1<<20))
	msize := int(m)
	conn := &vCaptureConn{}
	ch := vC02Chan(conn, msize)
	err := ch.WriteFcall(vBG, &Fcall{Type: Tread, Tag: tag, Message: msg})
	vAssert(err == nil, "C02: Tread is always sent")
	out := conn.out
	vAssert(len(out) == 23, "C02: Tread frame is 23 bytes")
	c2 := vLE32(out[19:23])
	vAssert(c2 <= count, "C02: emitted count never exceeds the caller's")
	// largest reply permitted: 11 + count'
	vAssert(uint64(c2)+11 <= uint64(m), "C02: largest reply permitted by the emitted count fits in msize")
	fits := uint64(count)+11 <= uint64(m)
	vAssert(vImplies(fits, c2 == count), "C02: a count that already fits is unchanged")
	vAssert(vImplies(vNot(fits), uint64(c2)+11 == uint64(m)), "C02: a lowered count is the largest that fits")
	adj := MessageTread{Fid: msg.Fid, Offset: msg.Offset, Count: c2}
	vAssertEqBytes(out, vFrame(refEncode(Tread, tag, adj)), "C02: Tread otherwise unmodified")
	vObserve("c2", c2)
	vReach("c02.tread")
}

func VerifC02_Cancelled() {
	kind := vAllKinds[ndChoice("kind", len(vAllKinds))]
	msg := ndMessage(kind, &vShapeTiny)
	ctx, cancel := context.WithCancel(vBG)
	cancel()
	conn := &vCaptureConn{}
	ch := vC02Chan(conn, 64)
	err := ch.WriteFcall(ctx, &Fcall{Type: kind, Tag: Tag(ndU16("tag")), Message: msg})
	vAssert(err != nil, "C02: cancelled context => error")
	vAssert(len(conn.out) == 0, "C02: cancelled context => nothing emitted")
	vReach("c02.cancelled")
}

// vLateCtx is a context whose cancellation becomes visible at the n-th
// observation (Done or Err): cancellation is asynchronous, so a context that
// is live when a write starts may end at any point during it.
type vLateCtx struct {
	n, seen int
	done    chan struct{}
}

func (c *vLateCtx) look() bool {
	c.seen++
	if c.seen > c.n && c.done != nil {
		select {
		case <-c.done:
		default:
			close(c.done)
		}
		return true
	}
	return c.seen > c.n
}
func (c *vLateCtx) Deadline() (time.Time, bool) { return time.Time{}, false }
func (c *vLateCtx) Done() <-chan struct{} {
	c.look()
	return c.done
}
func (c *vLateCtx) Err() error {
	if c.look() {
		return context.Canceled
	}
	return nil
}
func (c *vLateCtx) Value(key interface{}) interface{} { return nil }

// A context that ends while the write is in progress: the failed write emits
// nothing - neither now nor together with a later write on the same channel.
func VerifC02_CancelDuring() {
	kind := []FcallType{Tclunk, Twrite, Rread, Tversion}[ndChoice("kind", 4)]
	msg1 := ndMessage(kind, &vShapeTiny)
	tag1 := Tag(ndU16("tag1"))
	conn := &vCaptureConn{}
	ch := vC02Chan(conn, 64)
	ctx := &vLateCtx{n: ndChoice("k", 5), done: make(chan struct{})}
	err := ch.WriteFcall(ctx, &Fcall{Type: kind, Tag: tag1, Message: msg1})
	var want []byte
	if err == nil {
		want = vFrame(refEncode(kind, tag1, msg1))
		vReach("c02.during.sent")
	} else {
		vReach("c02.during.failed")
	}
	vAssertEqBytes(conn.out, want, "C02: a write emits exactly one frame, or nothing at all and an error")
	tag2 := Tag(ndU16("tag2"))
	msg2 := MessageTclunk{Fid: Fid(ndU32("fid2"))}
	err2 := ch.WriteFcall(vBG, &Fcall{Type: Tclunk, Tag: tag2, Message: msg2})
	vAssert(err2 == nil, "C02: a later write on the same channel succeeds")
	want = append(want, vFrame(refEncode(Tclunk, tag2, msg2))...)
	vAssertEqBytes(conn.out, want, "C02: a later write emits exactly its own frame (nothing left over from a failed write)")
}

type vCausal struct{ cause error }

func (c vCausal) Error() string { return "wrapped" }
func (c vCausal) Cause() error  { return c.cause }

func VerifC02_Overflow() {
	n := int(ndU32("n") >> 1)
	var e error = overflowErr{size: n}
	vAssert(Overflow(e) == n, "C02: Overflow reports the size")
	vAssert(Overflow(vCausal{vCausal{e}}) == n, "C02: Overflow follows Cause chains")
	vAssert(Overflow(errVMock) == 0, "C02: Overflow of other errors is 0")
	vAssert(Overflow(nil) == 0, "C02: Overflow(nil) is 0")
	vReach("c02.overflow")
}

// ---- large frames --------------------------------------------------------------
// Twrite with thousands of data bytes against msize values around powers of two
// and block multiples (content a concrete pattern, first/last byte and all
// integer fields symbolic); other kinds with a long string against the same
// msize values.
var vC02BigMsizes = []int{255, 256, 257, 1023, 1024, 1025, 4095, 4096, 4097, 4118, 4119, 4120, 4121, 8191, 8192, 8193, 8215, 8216, 12311, 16384, 65535, 65536, 65537, 1 << 17}

func vC02TwriteBig(msizes []int) {
	msize := msizes[ndChoice("msize", len(msizes))]
	fit := msize - 23
	n := fit + []int{-1, 0, 1, 2, 4096, 70000}[ndChoice("extra", 6)]
	tag := Tag(ndU16("tag"))
	data := vBigBytes("data", n)
	orig := append([]byte(nil), data...)
	msg := MessageTwrite{Fid: Fid(ndU32("fid")), Offset: ndU64("offset"), Data: data}
	conn := &vCaptureConn{}
	ch := newChannel(conn, codec9p{}, msize)
	err := ch.WriteFcall(vBG, &Fcall{Type: Twrite, Tag: tag, Message: msg})
	vAssert(err == nil, "C02: Twrite with msize >= 24 is always sent (possibly shortened)")
	vAssertEqBytes(data, orig, "C02: caller's buffer is never modified")
	out := conn.out
	vAssert(len(out) >= 23 && int(vLE32(out)) == len(out), "C02: length prefix equals total length")
	vAssert(len(out) <= msize, "C02: frame within msize")
	if 23+n <= msize {
		vAssertEqBytes(out, vFrame(refEncode(Twrite, tag, msg)), "C02: fitting Twrite unmodified")
	} else {
		vAssert(len(out) == msize, "C02: shortened Twrite frame is exactly msize")
		short := MessageTwrite{Fid: msg.Fid, Offset: msg.Offset, Data: orig[:fit]}
		vAssertEqBytes(out, vFrame(refEncode(Twrite, tag, short)), "C02: shortened Twrite carries a prefix of the data")
	}
	vReach("c02.twrite.big")
}

func vC02DefaultBig(msizes []int) {
	msize := msizes[ndChoice("msize", len(msizes))]
	tag := Tag(ndU16("tag"))
	var kind FcallType
	var msg Message
	// frame size = fixed part + string/data length; choose the length so that the
	// frame is msize-1, msize or msize+1
	d := []int{-1, 0, 1}[ndChoice("d", 3)]
	switch ndChoice("kind", 3) {
	case 0: // Rerror: 4+1+2+2+len
		n := msize + d - 9
		if n < 0 {
			return
		}
		if n > 65535 {
			n = 65535
		}
		kind, msg = Rerror, MessageRerror{Ename: string(vBigBytes("ename", n))}
	case 1: // Rread: 4+1+2+4+len
		n := msize + d - 11
		if n < 0 {
			return
		}
		kind, msg = Rread, MessageRread{Data: vBigBytes("data", n)}
	case 2: // Tcreate: 4+1+2+4+2+len+4+1
		n := msize + d - 18
		if n < 0 {
			return
		}
		if n > 65535 {
			n = 65535
		}
		kind, msg = Tcreate, MessageTcreate{Fid: Fid(ndU32("fid")), Name: string(vBigBytes("name", n)), Perm: ndU32("perm"), Mode: Flag(ndU8("mode"))}
	}
	conn := &vCaptureConn{}
	ch := newChannel(conn, codec9p{}, msize)
	want := refEncode(kind, tag, msg)
	err := ch.WriteFcall(vBG, &Fcall{Type: kind, Tag: tag, Message: msg})
	if 4+len(want) <= msize {
		vAssert(err == nil, "C02: a message that fits is sent")
		vAssertEqBytes(conn.out, vFrame(want), "C02: exactly one unmodified frame")
	} else {
		vAssert(err != nil, "C02: too long => error")
		vAssert(Overflow(err) == 4+len(want)-msize, "C02: error reports the excess")
		vAssert(len(conn.out) == 0, "C02: too long => nothing emitted")
	}
	vReach("c02.default.big")
}

func VerifC02_BigQuick() {
	if ndChoice("which", 2) == 0 {
		vC02TwriteBig(vC02BigMsizes)
	} else {
		vC02DefaultBig(vC02BigMsizes)
	}
}

// ---- msize lowered between two writes -----------------------------------------
// A write at msize A (any of several kinds, or none), then SetMSize(B) with
// B < A as version negotiation does, then a write that must obey B.
func VerifC02_AfterSetMSize() {
	conn := &vCaptureConn{}
	ch := newChannel(conn, codec9p{}, 128)
	switch ndChoice("first", 4) {
	case 1:
		ch.WriteFcall(vBG, &Fcall{Type: Twrite, Tag: 1, Message: MessageTwrite{Fid: 1, Data: ndBytes("d0", 1)}})
	case 2:
		ch.WriteFcall(vBG, &Fcall{Type: Tread, Tag: 1, Message: MessageTread{Fid: 1, Count: ndU32("c0")}})
	case 3:
		ch.WriteFcall(vBG, &Fcall{Type: Tclunk, Tag: 1, Message: MessageTclunk{Fid: 1}})
	}
	conn.out = nil
	b := []int{24, 25, 31, 64, 127}[ndChoice("b", 5)]
	ch.SetMSize(b)
	vAssert(ch.MSize() == b, "C02: SetMSize sets the msize")
	tag := Tag(ndU16("tag"))
	switch ndChoice("second", 3) {
	case 0:
		n := ndChoice("datalen", 7) + []int{0, b - 26}[ndChoice("near", 2)]
		if n < 0 {
			n = 0
		}
		data := vBigBytes("data", n)
		msg := MessageTwrite{Fid: Fid(ndU32("fid")), Offset: ndU64("offset"), Data: data}
		err := ch.WriteFcall(vBG, &Fcall{Type: Twrite, Tag: tag, Message: msg})
		vAssert(err == nil, "C02: Twrite with msize >= 24 is always sent (possibly shortened)")
		out := conn.out
		vAssert(len(out) >= 23 && int(vLE32(out)) == len(out), "C02: length prefix equals total length")
		vAssert(len(out) <= b, "C02: frame within msize")
		if 23+n <= b {
			vAssertEqBytes(out, vFrame(refEncode(Twrite, tag, msg)), "C02: fitting Twrite unmodified")
		} else {
			vAssert(len(out) == b, "C02: shortened Twrite frame is exactly msize")
			short := MessageTwrite{Fid: msg.Fid, Offset: msg.Offset, Data: data[:b-23]}
			vAssertEqBytes(out, vFrame(refEncode(Twrite, tag, short)), "C02: shortened Twrite carries a prefix of the data")
		}
	case 1:
		count := ndU32("count")
		msg := MessageTread{Fid: Fid(ndU32("fid")), Offset: ndU64("offset"), Count: count}
		err := ch.WriteFcall(vBG, &Fcall{Type: Tread, Tag: tag, Message: msg})
		vAssert(err == nil && len(conn.out) == 23, "C02: Tread is always sent")
		if len(conn.out) == 23 {
			c2 := vLE32(conn.out[19:23])
			vAssert(uint64(c2)+11 <= uint64(b), "C02: largest reply permitted by the emitted count fits in msize")
			vAssert(vImplies(uint64(count)+11 <= uint64(b), c2 == count), "C02: a count that already fits is unchanged")
			vAssert(vImplies(uint64(count)+11 > uint64(b), uint64(c2)+11 == uint64(b)), "C02: a lowered count is the largest that fits")
		}
	case 2:
		n := []int{b - 10, b - 9, b - 8}[ndChoice("elen", 3)]
		msg := MessageRerror{Ename: string(vBigBytes("ename", n))}
		want := refEncode(Rerror, tag, msg)
		err := ch.WriteFcall(vBG, &Fcall{Type: Rerror, Tag: tag, Message: msg})
		if 4+len(want) <= b {
			vAssert(err == nil, "C02: a message that fits is sent")
			vAssertEqBytes(conn.out, vFrame(want), "C02: exactly one unmodified frame")
		} else {
			vAssert(err != nil && Overflow(err) == 4+len(want)-b, "C02: error reports the excess")
			vAssert(len(conn.out) == 0, "C02: too long => nothing emitted")
		}
	}
	vReach("c02.aftersetmsize")
}


// Strings longer than a 9P string can carry (more than 65535 bytes): what the
// codec makes of such a message is not specified, but the channel must still
// either emit one frame within msize whose length prefix is its length, or
// nothing at all with an error.
func VerifC02_OverlongString() {
	msize := []int{65540, 65544, 65545, 65546, 65560, 70000, 140000}[ndChoice("msize", 7)]
	n := []int{65536, 65537, 69000}[ndChoice("n", 3)]
	tag := Tag(ndU16("tag"))
	var fc *Fcall
	switch ndChoice("kind", 4) {
	case 3: // a stat record whose strings are each representable but whose total is not
		d := Dir{Name: string(vBigBytes("name", 40000)), UID: string(vBigBytes("uid", n-40000))}
		fc = &Fcall{Type: Rstat, Tag: tag, Message: MessageRstat{Stat: d}}
	case 0:
		fc = &Fcall{Type: Rerror, Tag: tag, Message: MessageRerror{Ename: string(vBigBytes("ename", n))}}
	case 1:
		fc = &Fcall{Type: Tcreate, Tag: tag, Message: MessageTcreate{Fid: Fid(ndU32("fid")), Name: string(vBigBytes("name", n)), Perm: ndU32("perm"), Mode: Flag(ndU8("mode"))}}
	case 2:
		fc = &Fcall{Type: Twalk, Tag: tag, Message: MessageTwalk{Fid: Fid(ndU32("fid")), Newfid: Fid(ndU32("newfid")), Wnames: []string{"a", string(vBigBytes("wname", n))}}}
	}
	conn := &vCaptureConn{}
	ch := newChannel(conn, codec9p{}, msize)
	err := ch.WriteFcall(vBG, fc)
	if err == nil {
		vAssert(len(conn.out) >= 7 && int(vLE32(conn.out)) == len(conn.out), "C02: length prefix equals total length")
		vAssert(len(conn.out) <= msize, "C02: frame within msize")
	} else {
		vAssert(len(conn.out) == 0, "C02: too long => nothing emitted")
	}
	vReach("c02.overlong")
}
