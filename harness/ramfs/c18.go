package ramfs

// C18 - the in-memory file server is a tree of byte arrays and never crashes.

import (
	"context"

	p9p "github.com/frobnitzem/go-p9p"
)

var vBG = context.Background()

// fresh (non-global) server instance
func vNewServer() *fServer {
	fs := &fServer{
		lastpath: 1,
		root: &FileEnt{
			nref:     1,
			children: make(map[string]*FileEnt),
			Info:     newDir(1, "/", "root", p9p.DMDIR|0775),
		},
	}
	fs.root.fs = fs
	return fs
}

// RW: FileEnt.Read/Write against a byte-array model, offset over all 2^64
// values (the session passes int64(uint64 offset) from the wire).
func vC18RW(maxFile, maxBuf int) {
	flen := ndChoice("flen", maxFile+1)
	data := ndBytes("data", flen)
	ent := &FileEnt{nref: 1, Info: newDir(2, "f", "u", 0644)}
	ent.Data = append([]byte(nil), data...)
	off := ndI64("offset")
	blen := ndChoice("blen", maxBuf+1)
	if ndChoice("op", 2) == 0 {
		buf := make([]byte, blen)
		n, err := ent.Read(vBG, buf, off)
		inRange := vAnd(off >= 0, off <= int64(flen))
		if inRange {
			o := vConcrete(int(off))
			want := flen - o
			if want > blen {
				want = blen
			}
			vAssert(err == nil, "C18: read inside the file succeeds")
			vAssert(n == want, "C18: read returns min(len(p), size-offset) bytes")
			vAssertEqBytes(buf[:n], data[o:o+want], "C18: read returns exactly the file's bytes at that position")
			vReach("c18.read.in")
		} else {
			vAssert(n == 0, "C18: read outside the file returns no data")
			vReach("c18.read.out")
		}
		vAssertEqBytes(ent.Data, data, "C18: read does not modify the file")
		vObserve("n", n)
	} else {
		p := ndBytes("p", blen)
		n, err := ent.Write(vBG, p, off)
		inRange := vAnd(off >= 0, off <= int64(flen))
		if inRange {
			o := vConcrete(int(off))
			model := append([]byte(nil), data...)
			for i := 0; i < blen; i++ {
				if o+i < len(model) {
					model[o+i] = p[i]
				} else {
					model = append(model, p[i])
				}
			}
			vAssert(err == nil, "C18: write inside or at the end of the file succeeds")
			vAssert(n == blen, "C18: write reports all bytes written")
			vAssertEqBytes(ent.Data, model, "C18: file content is the byte-array model after the write")
			vAssert(ent.Info.Length == uint64(len(model)), "C18: length follows the content")
			vReach("c18.write.in")
		} else {
			vAssert(err != nil, "C18: write outside the file is an error")
			vAssertEqBytes(ent.Data, data, "C18: failed write leaves the file unchanged")
			vReach("c18.write.out")
		}
		vObserve("n", n)
	}
}

func VerifC18_RWQuick()    { vC18RW(3, 2) }
func VerifC18_RWThorough() { vC18RW(5, 4) }
