package ramfs

// C18 - the in-memory file server is a tree of byte arrays and never crashes.

import (
	"bytes"
	"context"

	p9p "github.com/frobnitzem/go-p9p"
)

var vBG = context.Background()

// fresh (non-global) server instance
func vNewServer() *fServer {
	fs := &fServer{
		lastpath: 1,
		root: &FileEnt{
			nref:     1,
			children: make(map[string]*FileEnt),
			Info:     newDir(1, "/", "root", p9p.DMDIR|0775),
		},
	}
	fs.root.fs = fs
	return fs
}

// RW: FileEnt.Read/Write against a byte-array model, offset over all 2^64
// values (the session passes int64(uint64 offset) from the wire).
func vC18RW(maxFile, maxBuf int) {
	flen := ndChoice("flen", maxFile+1)
	data := ndBytes("data", flen)
	ent := &FileEnt{nref: 1, Info: newDir(2, "f", "u", 0644)}
	ent.Data = append([]byte(nil), data...)
	off := ndI64("offset")
	blen := ndChoice("blen", maxBuf+1)
	if ndChoice("op", 2) == 0 {
		buf := make([]byte, blen)
		n, err := ent.Read(vBG, buf, off)
		inRange := vAnd(off >= 0, off <= int64(flen))
		if inRange {
			o := vConcrete(int(off))
			want := flen - o
			if want > blen {
				want = blen
			}
			vAssert(err == nil, "C18: read inside the file succeeds")
			vAssert(n == want, "C18: read returns min(len(p), size-offset) bytes")
			vAssertEqBytes(buf[:n], data[o:o+want], "C18: read returns exactly the file's bytes at that position")
			vReach("c18.read.in")
		} else {
			vAssert(n == 0, "C18: read outside the file returns no data")
			vReach("c18.read.out")
		}
		vAssertEqBytes(ent.Data, data, "C18: read does not modify the file")
		vObserve("n", n)
	} else {
		p := ndBytes("p", blen)
		n, err := ent.Write(vBG, p, off)
		inRange := vAnd(off >= 0, off <= int64(flen))
		if inRange {
			o := vConcrete(int(off))
			model := append([]byte(nil), data...)
			for i := 0; i < blen; i++ {
				if o+i < len(model) {
					model[o+i] = p[i]
				} else {
					model = append(model, p[i])
				}
			}
			vAssert(err == nil, "C18: write inside or at the end of the file succeeds")
			vAssert(n == blen, "C18: write reports all bytes written")
			vAssertEqBytes(ent.Data, model, "C18: file content is the byte-array model after the write")
			vAssert(ent.Info.Length == uint64(len(model)), "C18: length follows the content")
			vReach("c18.write.in")
		} else {
			vAssert(err != nil, "C18: write outside the file is an error")
			vAssertEqBytes(ent.Data, data, "C18: failed write leaves the file unchanged")
			vReach("c18.write.out")
		}
		vObserve("n", n)
	}
}

func VerifC18_RWQuick()    { vC18RW(3, 2) }
func VerifC18_RWThorough() { vC18RW(5, 4) }

// ---------------------------------------------------------------------------
// Tree: operation sequences through SFileSys(fs) against a model tree.

type vNode struct {
	dir    bool
	names  []string
	kids   map[string]*vNode
	data   []byte
	linked bool // still linked from its parent
}

type vFidM struct {
	node  *vNode
	chain []*vNode // ancestors, root first (empty for the root itself)
	open  bool
}

type vTree struct {
	fs   *fServer
	sess p9p.Session
	root *vNode
	fids map[p9p.Fid]*vFidM
}

func vNewTree() *vTree {
	t := &vTree{fs: vNewServer(), fids: map[p9p.Fid]*vFidM{}}
	t.sess = p9p.SFileSys(t.fs)
	t.root = &vNode{dir: true, kids: map[string]*vNode{}, linked: true}
	return t
}

func (n *vNode) unlink(name string) {
	delete(n.kids, name)
	var out []string
	for _, s := range n.names {
		if s != name {
			out = append(out, s)
		}
	}
	n.names = out
}

var vNameSets = [][]string{{}, {"a"}, {"b"}, {".."}, {"a", "b"}, {"..", "a"}, {"a", ".."}}

// vTreeOp performs one operation and checks it against the model.
func (t *vTree) vTreeOp() {
	op := ndChoice("op", 7)
	f := p9p.Fid(1 + ndChoice("fid", 3))
	m := t.fids[f]
	switch op {
	case 0: // walk / clone
		g := p9p.Fid(1 + ndChoice("newfid", 3))
		names := vNameSets[ndChoice("names", len(vNameSets))]
		if m != nil && len(names) > 0 && !m.node.dir {
			return // walking names from a file fid: not part of this model
		}
		if m != nil && m.open && g == f {
			return // walking an open fid in place: forbidden by 9P, not part of this model
		}
		qids, err := t.sess.Walk(vBG, f, g, names...)
		// model
		valid := p9p.ValidPath(names) >= 0
		switch {
		case !valid || m == nil:
			vAssert(err != nil, "C18: walk from an unbound fid / with an unsafe list fails")
		case g != f && t.fids[g] != nil:
			vAssert(err != nil, "C18: walk onto a bound fid fails")
		default:
			node := m.node
			chain := append([]*vNode(nil), m.chain...)
			found := 0
			bad := false
			for _, nm := range names {
				if nm == ".." {
					if len(chain) == 0 {
						bad = true
						break
					}
					node = chain[len(chain)-1]
					chain = chain[:len(chain)-1]
					found++
					continue
				}
				k := node.kids[nm]
				if k == nil {
					break
				}
				chain = append(chain, node)
				node = k
				found++
			}
			if bad || (len(names) > 0 && found == 0) {
				vAssert(err != nil, "C18: a walk whose first step fails (or climbs above the root) is an error")
			} else {
				vAssert(err == nil, "C18: walks (including '..') resolve as in the model tree")
				vAssert(len(qids) == found, "C18: the walk finds exactly the elements present in the model tree")
				if found == len(names) && (len(names) > 0 || g != f) {
					t.fids[g] = &vFidM{node: node, chain: chain}
					vReach("c18.walk.ok")
				}
			}
		}
	case 1: // create
		name := []string{"a", "b"}[ndChoice("cname", 2)]
		isDir := ndChoice("cdir", 2) == 1
		perm := uint32(0644)
		if isDir {
			perm = p9p.DMDIR | 0755
		}
		_, _, err := t.sess.Create(vBG, f, name, perm, p9p.ORDWR)
		switch {
		case m == nil || !m.node.dir:
			vAssert(err != nil, "C18: create needs a bound directory fid")
		case m.node.kids[name] != nil:
			vAssert(err != nil, "C18: create of an existing name fails")
		case !m.node.linked && m.node != t.root:
			// creating inside a removed directory: outcome not specified by the model
			if err == nil {
				k := &vNode{dir: isDir, kids: map[string]*vNode{}, linked: true}
				m.node.kids[name] = k
				m.node.names = append(m.node.names, name)
				t.fids[f] = &vFidM{node: k, chain: append(append([]*vNode(nil), m.chain...), m.node), open: true}
			}
		default:
			vAssert(err == nil, "C18: create of a fresh name in a directory succeeds")
			k := &vNode{dir: isDir, kids: map[string]*vNode{}, linked: true}
			m.node.kids[name] = k
			m.node.names = append(m.node.names, name)
			t.fids[f] = &vFidM{node: k, chain: append(append([]*vNode(nil), m.chain...), m.node), open: true}
			vReach("c18.create.ok")
		}
	case 2: // write
		data := ndBytes("wdata", 1+ndChoice("wlen", 2))
		off := ndI64("woff")
		n, err := t.sess.Write(vBG, f, data, off)
		if m == nil || !m.open || m.node.dir {
			vAssert(err != nil, "C18: write needs an open file fid")
			return
		}
		if vAnd(off >= 0, off <= int64(len(m.node.data))) {
			o := vConcrete(int(off))
			vAssert(err == nil && n == len(data), "C18: write inside or at the end of the file succeeds")
			for i := range data {
				if o+i < len(m.node.data) {
					m.node.data[o+i] = data[i]
				} else {
					m.node.data = append(m.node.data, data[i])
				}
			}
			vReach("c18.write.ok")
		} else {
			vAssert(err != nil, "C18: write outside the file fails")
		}
	case 3: // read
		cnt := ndChoice("rcount", 4)
		off := ndI64("roff")
		buf := make([]byte, cnt)
		n, err := t.sess.Read(vBG, f, buf, off)
		if m == nil || !m.open {
			vAssert(err != nil, "C18: read needs an open fid")
			return
		}
		if m.node.dir {
			return // directory reads are checked by the listing operation
		}
		if vAnd(off >= 0, off <= int64(len(m.node.data))) {
			o := vConcrete(int(off))
			want := len(m.node.data) - o
			if want > cnt {
				want = cnt
			}
			vAssert(err == nil && n == want, "C18: read returns min(count, size-offset) bytes")
			vAssertEqBytes(buf[:n], m.node.data[o:o+want], "C18: file reads return exactly the bytes most recently written at those positions")
			vReach("c18.read.ok")
		} else {
			vAssert(n == 0, "C18: read outside the file returns nothing")
		}
	case 4: // remove
		err := t.sess.Remove(vBG, f)
		if m == nil {
			vAssert(err != nil, "C18: remove of an unbound fid fails")
			return
		}
		delete(t.fids, f)
		if len(m.chain) > 0 && m.node.linked {
			parent := m.chain[len(m.chain)-1]
			for _, nm := range parent.names {
				if parent.kids[nm] == m.node {
					parent.unlink(nm)
					m.node.linked = false
				}
			}
			vReach("c18.remove.ok")
		}
	case 5: // clunk
		err := t.sess.Clunk(vBG, f)
		if m == nil {
			vAssert(err != nil, "C18: clunk of an unbound fid fails")
			return
		}
		delete(t.fids, f)
	case 6: // listing through a fresh fid
		g := p9p.Fid(9)
		if m == nil || !m.node.dir {
			return
		}
		_, err := t.sess.Walk(vBG, f, g)
		vAssert(err == nil, "C18: clone for listing")
		_, _, err = t.sess.Open(vBG, g, p9p.OREAD)
		vAssert(err == nil, "C18: open directory for listing")
		buf := make([]byte, 4096)
		n, err := t.sess.Read(vBG, g, buf, 0)
		vAssert(err == nil, "C18: read directory")
		got := map[string]int{}
		rd := bytesReader(buf[:n])
		cnt := 0
		for rd.Len() > 0 {
			var d p9p.Dir
			if p9p.DecodeDir(p9p.NewCodec(), rd, &d) != nil {
				break
			}
			got[d.Name]++
			cnt++
		}
		vAssert(got[".."] == 1, "C18: a listing contains '..'")
		if m.node.linked || m.node == t.root {
			for _, nm := range m.node.names {
				vAssert(got[nm] == 1, "C18: a listing contains every created and not yet removed child")
			}
			vAssert(cnt == len(m.node.names)+1, "C18: a listing contains exactly the children plus '..'")
		}
		t.sess.Clunk(vBG, g)
		vReach("c18.list")
	}
}

// validate: every node's reference count equals its number of parent links
func (t *vTree) vValidate() {
	cnt := map[*FileEnt]int{t.fs.root: 1}
	todo := []*FileEnt{t.fs.root}
	for len(todo) > 0 {
		f := todo[len(todo)-1]
		todo = todo[:len(todo)-1]
		if !f.IsDir() {
			vAssert(f.children == nil, "C18: a file has no children")
		}
		for _, c := range f.children {
			if _, ok := cnt[c]; !ok {
				cnt[c] = 1
				todo = append(todo, c)
			} else {
				cnt[c]++
			}
		}
	}
	for f, n := range cnt {
		vAssert(f.nref == n, "C18: when all fids are clunked every node's reference count equals its number of parent links")
	}
}

func vC18Tree(steps int) {
	t := vNewTree()
	_, err := t.sess.Attach(vBG, 1, p9p.NOFID, "u", "")
	vAssert(err == nil, "C18: attach")
	t.fids[1] = &vFidM{node: t.root}
	for i := 0; i < steps; i++ {
		t.vTreeOp()
	}
	for f := range t.fids {
		t.sess.Clunk(vBG, f)
	}
	t.vValidate()
	vReach("c18.tree")
}

func VerifC18_TreeQuick()    { vC18Tree(2) }
func VerifC18_TreeThorough() { vC18Tree(3) }

// A scripted history (data symbolic): remove through a stale handle after the
// name was re-created must not make the new file disappear.
func VerifC18_StaleRemove() {
	t := vNewTree()
	s := t.sess
	s.Attach(vBG, 1, p9p.NOFID, "u", "")
	s.Walk(vBG, 1, 2)                               // fid2 = clone of root
	_, _, err := s.Create(vBG, 2, "a", 0644, p9p.ORDWR) // fid2 = /a (old)
	vAssert(err == nil, "C18: create a")
	_, err = s.Walk(vBG, 1, 3, "a") // fid3 = second handle on old /a
	vAssert(err == nil, "C18: walk to a")
	vAssert(s.Remove(vBG, 2) == nil, "C18: remove a")
	s.Walk(vBG, 1, 2)
	_, _, err = s.Create(vBG, 2, "a", 0644, p9p.ORDWR) // a new /a
	vAssert(err == nil, "C18: re-create a")
	data := ndBytes("d", 2)
	s.Write(vBG, 2, data, 0)
	s.Remove(vBG, 3) // stale handle on the old file
	// the new file must still be there
	_, err = s.Walk(vBG, 1, 4, "a")
	vAssert(err == nil, "C18: removing through a stale handle does not remove the file that now has that name")
	s.Clunk(vBG, 4)
	s.Clunk(vBG, 2)
	s.Clunk(vBG, 1)
	t.vValidate()
	vReach("c18.stale")
}

// Concurrent sessions on the shared tree: data-race freedom
func VerifC18_Race() {
	fs := vNewServer()
	s1 := p9p.SFileSys(fs)
	s2 := p9p.SFileSys(fs)
	s1.Attach(vBG, 1, p9p.NOFID, "u1", "")
	s2.Attach(vBG, 1, p9p.NOFID, "u2", "")
	// a shared file
	s1.Walk(vBG, 1, 2)
	s1.Create(vBG, 2, "f", 0644, p9p.ORDWR)
	s2.Walk(vBG, 1, 2, "f")
	done := make(chan bool, 2)
	pair := ndChoice("pair", 4)
	go func() {
		switch pair {
		case 0:
			s1.Walk(vBG, 1, 3)
			s1.Create(vBG, 3, "x", 0644, p9p.ORDWR)
		case 1:
			s1.Write(vBG, 2, []byte{1}, 0)
		case 2:
			s1.Remove(vBG, 2)
		case 3:
			s1.WStat(vBG, 2, p9p.Dir{Mode: 0600, Length: ^uint64(0)})
		}
		done <- true
	}()
	go func() {
		switch pair {
		case 0:
			s2.Walk(vBG, 1, 3)
			s2.Create(vBG, 3, "y", 0644, p9p.ORDWR)
		case 1:
			s2.Stat(vBG, 2)
		case 2:
			s2.Walk(vBG, 1, 4, "f")
		case 3:
			s2.Walk(vBG, 1, 4)
			s2.Open(vBG, 4, p9p.OREAD)
			s2.Read(vBG, 4, make([]byte, 512), 0)
		}
		done <- true
	}()
	<-done
	<-done
	vReach("c18.race")
}

func bytesReader(b []byte) *bytes.Reader { return bytes.NewReader(b) }

// A scripted deep history: a fid three levels down is walked with two leading
// ".." and a name; afterwards the original fid still resolves ".." as before
// and reference counts balance.
func VerifC18_DeepDotDot() {
	t := vNewTree()
	s := t.sess
	s.Attach(vBG, 1, p9p.NOFID, "u", "")
	mk := func(fid p9p.Fid, from p9p.Fid, name string) {
		_, err := s.Walk(vBG, from, fid)
		vAssert(err == nil, "C18: clone")
		_, _, err = s.Create(vBG, fid, name, p9p.DMDIR|0755, p9p.OREAD)
		vAssert(err == nil, "C18: mkdir "+name)
	}
	mk(2, 1, "a")                      // fid2 = /a
	mk(3, 2, "b")                      // fid3 = /a/b
	mk(4, 2, "x")                      // fid4 = /a/x
	s.Clunk(vBG, 4)
	mk(4, 3, "c")                      // fid4 = /a/b/c
	_, err := s.Walk(vBG, 3, 5)        // fid5 = /a/b (unopened handle)
	vAssert(err == nil, "C18: clone b")
	_, err = s.Walk(vBG, 5, 6, "c")    // fid6 = /a/b/c, unopened, depth 3
	vAssert(err == nil, "C18: walk to c")
	q1, err := s.Walk(vBG, 6, 7, "..") // .. of /a/b/c is /a/b
	vAssert(err == nil && len(q1) == 1, "C18: .. from depth 3")
	bq := q1[0]
	_, err = s.Walk(vBG, 6, 8, "..", "..", "x") // /a/x
	vAssert(err == nil, "C18: two leading .. and a name resolve")
	q2, err := s.Walk(vBG, 6, 9, "..")
	vAssert(err == nil && len(q2) == 1 && q2[0].Path == bq.Path, "C18: walks (including '..') of a fid are not disturbed by earlier walks from it")
	for f := p9p.Fid(1); f <= 9; f++ {
		s.Clunk(vBG, f)
	}
	t.vValidate()
	vReach("c18.deep")
}

// A scripted family of deep histories: a chain of d nested directories is built
// by creates through one fid F (which moves into each new directory), F is
// cloned to G, then F and G each create m nested directories in turn.  From
// both fids '..' must resolve to the directory created just before the last
// one (or the clone point), and reference counts must balance after all fids
// are clunked.
func VerifC18_CloneDiverge() {
	t := vNewTree()
	s := t.sess
	s.Attach(vBG, 1, p9p.NOFID, "u", "")
	_, err := s.Walk(vBG, 1, 2)
	vAssert(err == nil, "C18: clone of the root")
	d := ndChoice("depth", 6)
	m := 1 + ndChoice("rounds", 2)
	var chain []p9p.Qid // qids of the directories F moved through
	rootq, _ := s.Walk(vBG, 1, 9, "..")
	_ = rootq
	s.Clunk(vBG, 9)
	mk := func(fid p9p.Fid, name string) p9p.Qid {
		q, _, err := s.Create(vBG, fid, name, p9p.DMDIR|0755, p9p.OREAD)
		vAssert(err == nil, "C18: mkdir "+name)
		return q
	}
	for i := 0; i < d; i++ {
		chain = append(chain, mk(2, string([]byte{byte('a' + i)})))
	}
	_, err = s.Walk(vBG, 2, 3) // G = clone of F
	vAssert(err == nil, "C18: clone")
	fchain := append([]p9p.Qid(nil), chain...)
	gchain := append([]p9p.Qid(nil), chain...)
	for r := 0; r < m; r++ {
		fchain = append(fchain, mk(2, string([]byte{byte('p' + r)})))
		gchain = append(gchain, mk(3, string([]byte{byte('u' + r)})))
	}
	parentOf := func(c []p9p.Qid) (uint64, bool) {
		if len(c) >= 2 {
			return c[len(c)-2].Path, true
		}
		return 0, false // parent is the root
	}
	qf, err := s.Walk(vBG, 2, 4, "..")
	vAssert(err == nil && len(qf) == 1, "C18: .. from F")
	qg, err2 := s.Walk(vBG, 3, 5, "..")
	vAssert(err2 == nil && len(qg) == 1, "C18: .. from G")
	if pf, ok := parentOf(fchain); ok && len(qf) == 1 {
		vAssert(qf[0].Path == pf, "C18: walks (including '..') resolve as in the model tree (F)")
	}
	if pg, ok := parentOf(gchain); ok && len(qg) == 1 {
		vAssert(qg[0].Path == pg, "C18: walks (including '..') resolve as in the model tree (G)")
	}
	for f := p9p.Fid(1); f <= 5; f++ {
		s.Clunk(vBG, f)
	}
	t.vValidate()
	vReach("c18.clonediverge")
}
