#!/usr/bin/env python3
"""seed_eval.py <wt-dir> <prop-id> <n> [checks...]
Confirms a seeded change produced by a sub-agent (compiles, existing tests pass, demo fails with / passes without),
stores it under /verif/seeded/<id>-<n>/, then runs the given checks (default: the property's own) against /repo with the
patch applied and records which of them detect it."""
import json, os, shutil, subprocess, sys, time
ENV = dict(os.environ, GOFLAGS='-mod=mod', GOPROXY='off', GOSUMDB='off', GOTOOLCHAIN='local')
def run(cmd, cwd, timeout=900):
    p = subprocess.run(cmd, cwd=cwd, shell=True, env=ENV, stdout=subprocess.PIPE, stderr=subprocess.STDOUT, timeout=timeout)
    return p.returncode, p.stdout.decode(errors='replace')
wt, pid, n = sys.argv[1], sys.argv[2], sys.argv[3]
checks = sys.argv[4:] or [pid]
S = os.path.join(wt, '_seeded', n)
meta = json.load(open(os.path.join(S, 'meta.json')))
demo_src = None
for f in os.listdir(S):
    if f.endswith('_test.go') or f.endswith('.go'):
        demo_src = os.path.join(S, f)
demo_dir = os.path.join(wt, meta.get('demo_pkg_dir', '.'))
demo_dst = os.path.join(demo_dir, 'zz_seed_demo_test.go')
report = {'property': pid, 'n': n, 'what': meta.get('what'), 'needs': meta.get('needs')}
run('git checkout -- . && rm -f ' + demo_dst, wt)
rc, out = run('git apply ' + os.path.join(S, 'patch.diff'), wt)
report['applies'] = rc == 0
rc, out = run('go build ./... && go test -vet=off -count=1 ./...', wt)
# TestServer (ramfs/sleepfs/ufs) has a rare flake in the unchanged repository (which of two shutdown causes
# ServeConn reports, "context canceled" vs "error reading fcall: context canceled"): retry when that is all that failed
tries = 0
while rc != 0 and tries < 3 and 'error reading fcall: context canceled' in out and out.count('--- FAIL') == out.count('--- FAIL: TestServer'):
    tries += 1
    rc, out = run('go build ./... && go test -vet=off -count=1 ./...', wt)
report['builds_and_existing_tests_pass'] = rc == 0
if rc != 0: report['existing_tests_output'] = out[-1500:]
shutil.copy(demo_src, demo_dst)
demo_cmd = meta.get('demo_cmd') or 'go test -vet=off -count=1 .'
if 'go test' in demo_cmd:  # keep only the go test invocation itself
    demo_cmd = demo_cmd[demo_cmd.index('go test'):]
    for sep in [' ; ', '; ', ' && ', ' || ', ' | ']:
        if sep in demo_cmd:
            demo_cmd = demo_cmd[:demo_cmd.index(sep)]
    demo_cmd = demo_cmd.strip().rstrip(')')
rc, out = run(demo_cmd, wt)
report['demo_fails_with_change'] = rc != 0
report['demo_output_with_change'] = out[-800:]
run('git checkout -- .', wt)
rc, out = run(demo_cmd, wt)
report['demo_passes_without_change'] = rc == 0
os.remove(demo_dst)
confirmed = report['applies'] and report['builds_and_existing_tests_pass'] and report['demo_fails_with_change'] and report['demo_passes_without_change']
report['confirmed'] = confirmed
dest = '/verif/seeded/%s-%s' % (pid, n)
if confirmed:
    os.makedirs(dest, exist_ok=True)
    shutil.copy(os.path.join(S, 'patch.diff'), dest)
    shutil.copy(demo_src, os.path.join(dest, os.path.basename(demo_src)))
    # run checks against /repo with the patch applied
    rc, out = run('git -C /repo status --porcelain', '/repo')
    assert out.strip() == '', '/repo not clean: ' + out
    rc, out = run('git -C /repo apply ' + os.path.join(dest, 'patch.diff'), '/repo')
    det = {}
    try:
        for c in checks:
            t0 = time.time()
            rc, out = run('./run.sh %s quick' % c, '/verif', timeout=1800)
            lines = [l for l in out.splitlines() if l.startswith('VIOLATION') or l.startswith('INCONCLUSIVE') or l.startswith('OK ') or l.startswith('  harness=')]
            det[c] = {'exit': rc, 'detected': rc == 1, 'wall_s': round(time.time() - t0, 1), 'lines': lines[:8]}
    finally:
        run('git -C /repo checkout -- .', '/repo')
    report['checks'] = det
    m = dict(meta)
    m['confirmed_by'] = 'tools/seed_eval.py: patch applies, go build + existing tests pass with it, demo fails with it and passes without it (re-run in the scratch worktree)'
    m['detected_by'] = {c: d['detected'] for c, d in det.items()}
    m['check_output'] = {c: d['lines'] for c, d in det.items()}
    json.dump(m, open(os.path.join(dest, 'meta.json'), 'w'), indent=1)
    # restore evidence files of the unchanged tree later (caller re-runs checks)
print(json.dumps(report, indent=1))
