#!/bin/sh
# usage (inside `vp run --with-repo`, or with VERIF_REPO pointing at a scratch clone of /repo):
#   VERIF_REPO=$VP_RUN_REPO sh tools/seed_regress.sh [seed-name...]
# Applies every seeded change in turn to the scratch repository, runs the quick check(s) that are recorded as
# catching it (meta.json detected_by) and prints one line per seed; the scratch repository is restored after each.
cd "$(dirname "$0")/.."
R=${VERIF_REPO:?set VERIF_REPO to a scratch clone of the repository}
[ "$R" != /repo ] || { echo "refusing to patch /repo itself"; exit 2; }
seeds="$*"; [ -n "$seeds" ] || seeds=$(ls seeded)
fail=0
for s in $seeds; do
  checks=$(python3 -c "import json;m=json.load(open('seeded/$s/meta.json'));print(' '.join(c for c,v in m.get('detected_by',{}).items() if v))")
  git -C "$R" checkout -q -- . ; git -C "$R" apply "$(pwd)/seeded/$s/patch.diff" || { echo "$s: patch does not apply"; fail=1; continue; }
  got=""
  for c in $checks; do
    ./run.sh $c quick > seed_regress_$s_$c.log 2>&1; rc=$?
    got="$got $c=$rc"
    [ $rc = 1 ] && break
  done
  case "$got" in *=1*) echo "$s caught:$got";; *) echo "$s MISSED:$got"; fail=1;; esac
  git -C "$R" checkout -q -- .
done
echo "REGRESS-DONE fail=$fail"
