#!/bin/sh
# usage: tools/seed_rerun.sh <seed-dir-name> <check>...   (applies the seeded patch to /repo, runs the quick checks, reverts)
cd /verif
s=$1; shift
[ -z "$(git -C /repo status --porcelain)" ] || { echo "/repo not clean"; exit 2; }
git -C /repo apply /verif/seeded/$s/patch.diff || { echo "$s: patch does not apply"; exit 2; }
for c in "$@"; do
  ./run.sh $c quick > /tmp/seed_rerun_$s_$c.log 2>&1; rc=$?
  echo "$s $c exit=$rc $(grep -E '^  harness=' /tmp/seed_rerun_$s_$c.log | head -1 | cut -c1-160)"
done
git -C /repo checkout -- .
