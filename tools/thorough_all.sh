#!/bin/sh
# run every thorough tier once, smallest first; logs under thorough_logs/
mkdir -p thorough_logs
for c in C08 C14 C20 C09 C11 C04 C17 C03 C07 C01 C05 C06 C16 C18 C13 C15 C02 C10 C12 C19; do
  start=$(date +%s)
  ./run.sh $c thorough > thorough_logs/$c.log 2>&1
  rc=$?
  end=$(date +%s)
  echo "$c rc=$rc wall=$((end-start))s $(grep '^OK\|^INCONCLUSIVE\|^VIOLATION' thorough_logs/$c.log | head -3 | tr '\n' ' ' | cut -c1-300)"
done
echo ALLDONE
