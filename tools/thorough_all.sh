#!/bin/sh
# run every thorough tier once, smallest first; logs under thorough_logs/
mkdir -p thorough_logs
for c in C10 C12 C19 C02 C16 C05 C07 C01 C03 C06 C18 C17 C15 C08 C13 C20 C09 C14 C11 C04; do
  start=$(date +%s)
  ./run.sh $c thorough > thorough_logs/$c.log 2>&1
  rc=$?
  end=$(date +%s)
  echo "$c rc=$rc wall=$((end-start))s $(grep '^OK\|^INCONCLUSIVE\|^VIOLATION' thorough_logs/$c.log | head -3 | tr '\n' ' ' | cut -c1-300)"
done
echo ALLDONE
