#!/usr/bin/env python3
"""Engine self-validation (DESIGN section 4): litmus harnesses with known outcomes.
 * sequential semantics: VerifLitmusArith / VerifLitmusForks must pass with a clean native differential,
   VerifLitmusFail must be reported (x == 0xFFFE) and reproduce natively;
 * scheduler: the outcome sets of VerifLitmusSched1..5 must equal the known sets, with and without the
   sleep-set reduction; VerifLitmusDeadlock / VerifLitmusRace must be reported.
Exit 0 iff everything matches."""
import subprocess, sys, re, os
V = os.path.dirname(os.path.dirname(os.path.abspath(__file__)))
SYM = os.path.join(V, 'build', 'symgo')
REPO = os.environ.get('VERIF_REPO', '/repo')
def run(args):
    p = subprocess.run([SYM, 'run', '-verif', V, '-repo', REPO] + args, stdout=subprocess.PIPE, stderr=subprocess.STDOUT)
    return p.returncode, p.stdout.decode(errors='replace')
bad = []
rc, out = run(['-h', 'VerifLitmusArith,VerifLitmusForks', '-native'])
if rc != 0 or out.count(' 0 mismatches') != 2 or 'VIOLATION' in out:
    bad.append('sequential litmus: ' + out[-400:])
rc, out = run(['-h', 'VerifLitmusFail', '-native'])
if 'x is never fffe' not in out or 'x!0:65534' not in out:
    bad.append('VerifLitmusFail not reported with x = 0xFFFE: ' + out[-400:])
expected = {
    'VerifLitmusSched1': {'order=12,', 'order=21,'},
    'VerifLitmusSched2': {'x=1,', 'x=2,', 'x=3,'},
    'VerifLitmusSched3': {'r=1,', 'r=2,'},
    'VerifLitmusSched4': {'sum=3,', 'sum=21,', 'sum=10,'},
    'VerifLitmusSched5': {'order=123,', 'order=132,', 'order=312,'},
}
for sleep in ['true', 'false']:
    for h, want in expected.items():
        rc, out = run(['-h', h, '-pb', '-1', '-sleep=' + sleep, '-outcomes'])
        m = re.search(r'outcomes\(\d+\): (.*)', out)
        got = set(x.strip() for x in m.group(1).split('|')) if m else set()
        if got != want:
            bad.append('%s sleep=%s: outcomes %s, expected %s' % (h, sleep, sorted(got), sorted(want)))
rc, out = run(['-h', 'VerifLitmusDeadlock,VerifLitmusRace', '-pb', '-1'])
if 'VIOLATION[deadlock]' not in out or 'VIOLATION[race]' not in out:
    bad.append('deadlock/race litmus not reported: ' + out[-400:])
if bad:
    print('LITMUS FAILED'); print('\n'.join(bad)); sys.exit(1)
print('litmus ok: sequential semantics (native differential), counterexample extraction, scheduler outcome sets with and without sleep sets, deadlock and race detection')
