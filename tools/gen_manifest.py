#!/usr/bin/env python3
"""Regenerates /verif/MANIFEST.json from /verif/checks/*.json and the table below."""
import json, os, glob
V = os.path.dirname(os.path.dirname(os.path.abspath(__file__)))
props = [json.loads(l) for l in open(os.path.join(V, 'properties.jsonl'))]
notes = json.load(open(os.path.join(V, 'checks', 'manifest_notes.json')))
checks = []
na = []
for p in props:
    pid = p['id']
    spec_path = os.path.join(V, 'checks', pid + '.json')
    n = notes.get(pid, {})
    if os.path.exists(spec_path) and not n.get('not_applicable'):
        checks.append({
            'property_id': pid,
            'quick_cmd': './run.sh %s quick' % pid,
            'thorough_cmd': './run.sh %s thorough' % pid,
            'evidence_file': '/verif/evidence/%s.json' % pid,
            'replay_cmd_template': 'sh {path}/replay.sh',
            'engine': 'symgo',
            'level_claimed': {
                'category': 'model_checking',
                'text': n.get('text', ''),
                'design_ref': n.get('design_ref', 'DESIGN.md section 5, ' + pid),
            },
            'level_note': n.get('level_note', ''),
            'technique': n.get('technique', 'bounded symbolic execution of the real go/ssa code + SMT (z3), counterexamples replayed natively'),
        })
    else:
        na.append({'property_id': pid, 'reason': n.get('not_applicable', 'check not built yet (work in progress in this session)')})
m = {
    'version': 1,
    'setup_cmd': 'sh ./setup.sh',
    'hooks': {
        'guard': 'verif',
        'enable': 'no source hooks: harnesses are injected as overlay files (go/packages Overlay for the engine, go test -overlay for native replay); /repo is never modified by the machinery',
        'baseline_off_cmd': 'cd /repo && GOFLAGS=-mod=mod GOPROXY=off GOSUMDB=off go test -vet=off -count=1 ./...',
        'source_commits': [],
        'add_only': True,
    },
    'engines': [{
        'name': 'symgo',
        'path': '/verif/engine',
        'serves_properties': [c['property_id'] for c in checks],
        'kind_free_text': 'symbolic executor for Go built on a fork of golang.org/x/tools/go/ssa/interp: integers/bytes are SMT bit-vector terms, paths forked by re-execution along a decision vector, z3 over a pipe, bounded deterministic scheduler for goroutines, native replay of every counterexample and of path models (translator validation)',
    }],
    'checks': checks,
    'not_applicable': na,
    'notes': 'Exit codes of every check: 0 held within the stated bounds; 1 + VIOLATION line = natively replayed counterexample; 3 + INCONCLUSIVE lines = timeout/unknown/unsupported/unwinding limit (never reported as success). See DESIGN.md.',
}
json.dump(m, open(os.path.join(V, 'MANIFEST.json'), 'w'), indent=1)
print('checks:', [c['property_id'] for c in checks]); print('not_applicable:', [x['property_id'] for x in na])
