#!/usr/bin/env python3
"""Prints the markdown table of DESIGN section 12 from /verif/seeded/*/meta.json."""
import json, glob, os
rows = []
for d in sorted(glob.glob('/verif/seeded/*/')):
    m = json.load(open(os.path.join(d, 'meta.json')))
    name = os.path.basename(d.rstrip('/'))
    det = m.get('detected_by', {})
    caught = ', '.join(c for c, v in sorted(det.items()) if v) or '**none**'
    missed = ', '.join(c for c, v in sorted(det.items()) if not v)
    how = ''
    for c, lines in (m.get('check_output') or {}).items():
        for l in lines:
            if 'harness=' in l and det.get(c):
                h = l.split('harness=')[1].split()[0]
                k = l.split('kind=')[1].split()[0]
                how = '%s (%s)' % (h, k)
                break
        if how: break
    what = (m.get('what') or '')[:170].replace('|', '/').replace('\n', ' ')
    rows.append('| %s | %s | %s | %s | %s |' % (name, what, caught, how, missed))
print('| seeded change | what it does (first sentence of the author\'s description) | caught by (quick) | first reporting harness | run but silent |')
print('|---|---|---|---|---|')
print('\n'.join(rows))
