#!/bin/sh
# usage: ./run.sh <property-id> quick|thorough
# Builds the engine if needed (cached), then runs the check against /repo's
# current working tree.  Exit 0 = held, 1 = VIOLATION, 3 = inconclusive.
set -u
cd "$(dirname "$0")"
export GOFLAGS=-mod=mod GOPROXY=off GOSUMDB=off GOTOOLCHAIN=local
mkdir -p build
if ! (cd engine && go build -o ../build/symgo ./cmd/symgo) >build/build.log 2>&1; then
  echo "INCONCLUSIVE engine build failed"; cat build/build.log; exit 3
fi
exec ./build/symgo check -verif "$(pwd)" -repo "${VERIF_REPO:-/repo}" -id "$1" -tier "${2:-quick}"
